#!/bin/bash
# tools/eval_mutant_iso.sh "<id>:<check>,<check>" ... : evaluates seeded changes WITHOUT touching /repo:
# a scratch worktree of /repo carries the change, a scratch copy of /verif (harness path dependency
# redirected) runs the checks with VERIF_REPO pointing at it.  Everything lives under /tmp/iso and is
# removed at the end.  (Used while a long background run occupies /repo itself.)
ISO=${ISO:-/tmp/iso}   # set ISO=<dir> to evaluate several changes side by side
rm -rf $ISO; mkdir -p $ISO
git -C /repo worktree prune
git -C /repo worktree add -q $ISO/repo HEAD || exit 2
rsync -a --exclude build --exclude .git --exclude evidence --exclude replays /verif/ $ISO/verif/
sed -i "s#path = \"/repo\"#path = \"$ISO/repo\"#" $ISO/verif/harness/Cargo.toml
mkdir -p $ISO/verif/evidence $ISO/verif/replays
for spec in "$@"; do
  id=${spec%%:*}; checks=${spec#*:}
  D=/verif/seeded/$id
  (cd $ISO/repo && git checkout -q -- . && git apply $D/patch.diff) || { echo "$id patch does not apply"; continue; }
  for c in ${checks//,/ }; do
    (cd $ISO/verif && VERIF_REPO=$ISO/repo timeout 2400 ./check $c --tier quick > $D/eval_$c.txt 2>&1); rc=$?
    echo "$id $c exit=$rc $(grep -c '^VIOLATION' $D/eval_$c.txt) violation lines; first: $(grep -m1 '^VIOLATION' $D/eval_$c.txt | cut -c1-200)"
    sed -i "s#$ISO/verif#/verif#g; s#$ISO/repo#/repo#g" $D/eval_$c.txt
  done
done
cd /; git -C /repo worktree remove --force $ISO/repo; rm -rf $ISO
