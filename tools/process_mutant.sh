#!/bin/bash
# tools/process_mutant.sh <outdir> <seeded-id> <check>,<check> : confirm a sub-agent's change (scratch worktree),
# keep it as seeded/<id>/ and evaluate it in isolation (scratch worktree + scratch copy of /verif); /repo is not touched.
OUTD=$1; ID=$2; CHECKS=$3
D=/verif/seeded/$ID
OUT=$OUTD /verif/tools/confirm_mutant.sh $ID > /tmp/confirm_$ID.txt 2>&1
tail -3 /tmp/confirm_$ID.txt | tr '\n' ' '; echo
grep -q "tests passed/failed with change: 59 0" /tmp/confirm_$ID.txt && grep -q "demo with change: exit=[1-9]" /tmp/confirm_$ID.txt \
  && grep -q "demo without change: exit=0" /tmp/confirm_$ID.txt || { echo "$ID NOT CONFIRMED"; exit 4; }
mkdir -p $D; cp -r $OUTD/patch.diff $OUTD/meta.json $OUTD/demo $D/ 2>/dev/null; cp $OUTD/RUN.md $D/ 2>/dev/null
find $D -name target -type d -prune -exec rm -rf {} +
cp /tmp/confirm_$ID.txt $D/confirmed.txt
ISO=/tmp/iso_$ID /verif/tools/eval_mutant_iso.sh "$ID:$CHECKS"
