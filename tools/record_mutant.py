#!/usr/bin/env python3
"""tools/record_mutant.py <id> "<history>" "<strengthening>" <ran-cmd>... : writes the `verif` block of
seeded/<id>/meta.json from confirmed.txt and the eval_<check>.txt files next to it."""
import glob, json, os, re, sys
sid, history, strengthening = sys.argv[1:4]
ran = sys.argv[4:]
d = os.path.join(os.path.dirname(os.path.dirname(os.path.abspath(__file__))), "seeded", sid)
meta = json.load(open(os.path.join(d, "meta.json")))
conf = [l.strip() for l in open(os.path.join(d, "confirmed.txt")) if l.strip()][-3:]
caught = {}
for f in sorted(glob.glob(os.path.join(d, "eval_*.txt"))):
    c = os.path.basename(f)[5:-4]
    lines = open(f).read().splitlines()
    for i, l in enumerate(lines):
        if l.startswith("VIOLATION"):
            caught[c] = (lines[i + 1].strip() if i + 1 < len(lines) else l)[:240]
            break
meta["verif"] = {"confirmed": conf, "history": history, "strengthening": strengthening, "caught_by": caught,
                 "ran": ["tools/confirm_mutant.sh " + sid] + ran}
json.dump(meta, open(os.path.join(d, "meta.json"), "w"), indent=1)
print(sid, "caught by", sorted(caught))
