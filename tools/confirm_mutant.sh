#!/bin/bash
# tools/confirm_mutant.sh <id> : confirms a sub-agent's mutation in a scratch worktree:
#   patch applies, workspace tests pass, demo fails with the change and passes without it.
# Usage of the demo: every demo has demo/run.sh taking TREE=<path>.
set -u
ID=$1
OUT=${OUT:-/tmp/mut_${ID}_out}
WT=/tmp/cm_${ID}
export CARGO_TARGET_DIR=/tmp/cm_target_${ID}
git -C /repo worktree remove --force $WT 2>/dev/null
git -C /repo worktree add -q $WT HEAD || exit 2
cd $WT
if ! git apply $OUT/patch.diff; then echo "PATCH-DOES-NOT-APPLY"; git -C /repo worktree remove --force $WT; exit 3; fi
T=$(cargo test --workspace --offline --no-fail-fast 2>&1 | grep -E "^test result" | awk '{p+=$4; f+=$6} END {print p" "f}')
echo "tests passed/failed with change: $T"
RUN=$(ls $OUT/demo/run.sh $OUT/run.sh $OUT/demo/run_demo.sh $OUT/demo/demo.sh 2>/dev/null | head -1)
if [ -n "$RUN" ]; then
  (cd $(dirname $RUN) && TREE=$WT bash $RUN > $OUT/confirm_with.txt 2>&1); echo "demo with change: exit=$?"
  git checkout -q . 
  (cd $(dirname $RUN) && TREE=$WT bash $RUN > $OUT/confirm_without.txt 2>&1); echo "demo without change: exit=$?"
else
  echo "NO run.sh"
fi
cd /; git -C /repo worktree remove --force $WT; rm -rf $CARGO_TARGET_DIR
