#!/bin/bash
# tools/eval_mutant.sh <id> <check>... : applies seeded/<id>/patch.diff to /repo, runs the checks, reverts.
ID=$1; shift
D=/verif/seeded/$ID
cd /repo && git apply $D/patch.diff || { echo "patch does not apply"; exit 3; }
cd /verif
for c in "$@"; do
  timeout 1500 ./check $c --tier quick > $D/eval_$c.txt 2>&1; rc=$?
  echo "$ID $c exit=$rc $(grep -c '^VIOLATION' $D/eval_$c.txt) violation lines; first: $(grep -m1 -A1 '^VIOLATION' $D/eval_$c.txt | tail -1 | cut -c1-160)"
done
git -C /repo checkout -- .
