#!/bin/bash
# tools/mutant_batch.sh "<id>:<check>,<check>" ... : confirm (if not yet) and evaluate mutants sequentially
for spec in "$@"; do
  id=${spec%%:*}; checks=${spec#*:}
  D=/verif/seeded/$id
  if [ ! -f $D/confirmed.txt ]; then /verif/tools/confirm_mutant.sh $id > $D/confirmed.txt 2>&1; fi
  tail -3 $D/confirmed.txt | tr '\n' ' '; echo
  /verif/tools/eval_mutant.sh $id ${checks//,/ }
done
