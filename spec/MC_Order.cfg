INIT Init
NEXT Next
INVARIANT JudgeC15
CHECK_DEADLOCK FALSE
