INIT Init
NEXT Next
INVARIANT JudgeC04
CHECK_DEADLOCK FALSE
