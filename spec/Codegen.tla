------------------------------- MODULE Codegen -------------------------------
(***************************************************************************)
(* Scoping model of the Rust code that backend/rust.rs emits (C11).        *)
(* The emitted functions use a handful of locals; Predict(G) lists the     *)
(* clauses under which an ACCEPTED grammar yields code that cannot         *)
(* compile, each clause being one way in which a local (or a pattern) is   *)
(* used without a declaration in an enclosing Rust block:                  *)
(*   start_undeclared      `>name` (whole-rule creation) in a rule whose   *)
(*                         prologue does not declare `start`               *)
(*   node_kind_undeclared  `@name` in the start rule, which has no         *)
(*                         node_kind declaration                           *)
(*   epsilon_pattern       a repetition/option whose body is nullable: the *)
(*                         arm pattern is the first set and contains the   *)
(*                         empty-word marker, which is not a token         *)
(* ScopeOK(G) == Predict(G) = {}.  G is the machine-format grammar         *)
(* (ParserMachine.tla): rules carry el, hascreation; nodes carry first.    *)
(***************************************************************************)
EXTENDS Naturals, Sequences, FiniteSets, TLC

SeqSet(q) == {q[i] : i \in DOMAIN q}

RECURSIVE Desc(_, _)
\* all constructs below (and including) node n
Desc(G, n) == {n} \cup UNION {Desc(G, G.nodes[n].c[i]) : i \in DOMAIN G.nodes[n].c}

IsPrattRule(G, ri) == \E i \in DOMAIN G.rules[ri].rec : G.rules[ri].rec[i].kind \in {"left", "leftright"}

\* does the prologue emitted for elision class el declare `start`?
DeclaresStart(el, hascreation) == el = "cond" \/ hascreation

RuleClauses(G, ri) ==
  LET R == G.rules[ri]
      isstart == R.name = G.start
      ns == IF R.body = 0 THEN {} ELSE Desc(G, R.body)
      whole == {n \in ns : G.nodes[n].k = "create" /\ G.nodes[n].num = ""}
      renames == {n \in ns : G.nodes[n].k = "rename" /\ G.nodes[n].name # ""}
      loops == {n \in ns : G.nodes[n].k \in {"star", "plus", "opt"} /\ G.nodes[n].c # <<>>}
  IN (IF ~R.used THEN {}
      ELSE (IF whole # {} /\ ~IsPrattRule(G, ri) /\ ~DeclaresStart(R.el, R.hascreation)
            THEN {"start_undeclared"} ELSE {})
           \cup (IF renames # {} /\ isstart THEN {"node_kind_undeclared"} ELSE {})
           \cup (IF \E n \in loops : "eps" \in SeqSet(G.nodes[G.nodes[n].c[1]].first)
                 THEN {"epsilon_pattern"} ELSE {}))

Predict(G) == UNION {RuleClauses(G, ri) : ri \in DOMAIN G.rules}
ScopeOK(G) == Predict(G) = {}
=============================================================================
