-------------------------------- MODULE MC_P1 --------------------------------
(***************************************************************************)
(* Pipeline P1: TLC judges what lelwel's semantic pass computed for a      *)
(* batch of grammars against the contract definitions of Grammar.tla.      *)
(* One state per grammar.  Each grammar record carries, next to its        *)
(* structure, lelwel's exported sets under the field `lel`:                *)
(*   lel.first / follow / predict / recovery : Seq (per node) of Seq(tok)  *)
(*   lel.hasrec : Seq (per node) of BOOLEAN   (a recovery set exists)      *)
(*   lel.conf   : Seq(<<code, node>>)         E011..E014 by primary span   *)
(* Disagreements are printed as "MM|{json}" lines; the invariants are      *)
(* TRUE by construction so that one run reports every disagreement.        *)
(***************************************************************************)
EXTENDS Grammar, Json, IOUtils

Gs == ndJsonDeserialize(IOEnv.GFILE)

VARIABLE g
vars == <<g>>

Init == g \in 1..Len(Gs)
Next == UNCHANGED g

Say(rec) == PrintT("MM|" \o ToJson(rec))

\* equality up to part end markers: exact on tokens and EOF, spec's markers must be present
EqModMarks(G, spec, impl) ==
  LET M == AllMarks(G) IN
  /\ (spec \ M) = ((impl \ {EPS}) \ M)
  /\ (spec \cap M) \subseteq impl

JudgeC09 ==
  LET G == Gs[g]
      A == Analysis(G)
      R == ReachableNodes(G)
  IN \A n \in Nodes(G) :
       /\ \/ A.first[n] = SeqToSet(G.lel.first[n])
          \/ Say([g |-> G.name, p |-> "C09", what |-> "first", n |-> n,
                  spec |-> A.first[n], impl |-> SeqToSet(G.lel.first[n])])
       /\ \/ n \notin R
          \/ EqModMarks(G, A.follow[n], SeqToSet(G.lel.follow[n]))
          \/ Say([g |-> G.name, p |-> "C09", what |-> "follow", n |-> n,
                  spec |-> A.follow[n], impl |-> SeqToSet(G.lel.follow[n])])
       /\ \/ n \notin R
          \/ EqModMarks(G, A.predict[n], SeqToSet(G.lel.predict[n]))
          \/ Say([g |-> G.name, p |-> "C09", what |-> "predict", n |-> n,
                  spec |-> A.predict[n], impl |-> SeqToSet(G.lel.predict[n])])

\* E012 is compared per BRANCH of the left-recursive rule (which construct of the branch carries
\* the primary span is not part of the property): a node is replaced by the branch that contains it
RECURSIVE BranchAncestor(_, _, _)
BranchAncestor(G, P, n) ==
  IF P[n] = 0 THEN n ELSE IF P[P[n]] = 0 THEN n ELSE BranchAncestor(G, P, P[n])
NormPair(G, P, x) == IF x[1] = "E012" THEN <<x[1], BranchAncestor(G, P, x[2])>> ELSE x
\* an empty-word operator among the operands of the branch: the pinned implementation picks the
\* operator of such a branch inconsistently (known finding F17)
EpsOpBranch(G, n) == K(G, n) = "cat" /\ \E i \in DOMAIN C(G, n) : K(G, C(G, n)[i]) \in {"rename", "elide", "act"}

JudgeC10 ==
  LET G == Gs[g]
      A == Analysis(G)
      Own == OwnerMap(G, A.parent)
      must == {NormPair(G, A.parent, x) : x \in ConflictsMust(G, A.first, A.predict, A.follow, Own)}
      may  == {NormPair(G, A.parent, x) : x \in ConflictsMay(G, A.first, A.predict, A.follow, Own)}
      impl == {NormPair(G, A.parent, <<G.lel.conf[i][1], G.lel.conf[i][2]>>) : i \in DOMAIN G.lel.conf}
      narrow == {NormPair(G, A.parent, x) : x \in NarrowE012(G, A.predict, A.follow, Own)}
  IN /\ \A x \in must \ impl :
          Say([g |-> G.name, p |-> "C10", what |-> "missing", code |-> x[1], n |-> x[2],
               cause |-> IF x[1] = "E012" /\ EpsOpBranch(G, x[2]) THEN "epsop_in_left_rec_branch"
                         ELSE IF x[1] = "E012" /\ x \notin narrow THEN "inrule_selfref" ELSE "other"])
     /\ \A x \in impl \ may :
          Say([g |-> G.name, p |-> "C10", what |-> "spurious", code |-> x[1], n |-> x[2],
               cause |-> IF x[1] = "E012" /\ x[2] \in Nodes(G) /\ EpsOpBranch(G, x[2]) THEN "epsop_in_left_rec_branch" ELSE ""])

JudgeC14 ==
  LET G == Gs[g]
      A == Analysis(G)
      V == DomGraphNodes(G)
      RA == [d \in V |-> ReachAvoid(G, d)]
  IN \A n \in LoopNodes(G) \cap V :
       LET spec == Recovery(G, A.first, A.follow, V, RA, n)
           impl == SeqToSet(G.lel.recovery[n])
       IN /\ \/ ~G.lel.hasrec[n]
             \/ EqModMarks(G, spec \ {EPS}, impl)
             \/ Say([g |-> G.name, p |-> "C14", what |-> "recovery", n |-> n,
                     spec |-> spec, impl |-> impl, dom |-> Dominators(G, V, RA, n)])
          /\ \/ G.lel.hasrec[n]
             \/ Say([g |-> G.name, p |-> "C14", what |-> "norecovery", n |-> n])
          \* the mechanism behind C03: a loop is always left at end of input
          /\ \/ EOFT \in (SeqToSet(G.lel.follow[n]) \cup impl)
             \/ Say([g |-> G.name, p |-> "C14", what |-> "eof", n |-> n])
          /\ \/ EOFT \in (A.follow[n] \cup spec)
             \/ Say([g |-> G.name, p |-> "C14", what |-> "eof_spec", n |-> n])
          \* the same for every part entry point: its end marker is the end-of-input token
          \* while the part is parsed, for every loop that parse can reach
          /\ \A k \in DOMAIN G.parts :
               LET pb == BodyOf(G, G.parts[k].name) IN
               \/ pb = 0
               \/ n \notin ReachFrom(G, {pb}, {})
               \/ G.parts[k].mark \in (SeqToSet(G.lel.follow[n]) \cup impl)
               \/ Say([g |-> G.name, p |-> "C14", what |-> "part_eof", n |-> n, part |-> G.parts[k].name])

\* C05 (mechanism): the elision class lelwel attaches to every construct is the semantic one
JudgeElision ==
  LET G == Gs[g] IN
  \A n \in Nodes(G) :
    \/ G.lel.el[n] = ""
    \/ G.lel.el[n] = ElisionClass(G, n)
    \* "conditional" is always safe (the emitted code then decides at run time); lelwel uses it for
    \* `^ | ^`, where the semantic class is "unconditional"
    \/ G.lel.el[n] = "cond"
    \/ Say([g |-> G.name, p |-> "C05", what |-> "elision_class", n |-> n,
            spec |-> ElisionClass(G, n), impl |-> G.lel.el[n]])

\* C07 (mechanism): binding powers order the branches and encode associativity exactly once
JudgeBinding ==
  LET G == Gs[g]
      F == First(G)
  IN \A ri \in RuleIds(G) :
       LET R == G.lel.rec[ri]
           twosided == SelectSeq(R, LAMBDA x : x.kind = "leftright")
           bp == [k \in DOMAIN R |-> R[k].bp]
           \* only two-sided branches have an associativity; one-sided ones are ordered only
           ra == [k \in DOMAIN R |->
                   IF R[k].kind = "leftright"
                   THEN LET op == Opnds(G, R[k].node)[2]
                            toks == F[op] \ {EPS}
                        IN toks # {} /\ toks \subseteq SeqToSet(G.right)
                   ELSE R[k].bp[1] > R[k].bp[2]]
       IN \/ R = <<>>
          \/ BindingPowersOK(bp, ra)
          \/ Say([g |-> G.name, p |-> "C07", what |-> "binding_powers", n |-> ri, impl |-> bp, ra |-> ra])

\* sanity of the oracle itself: a reduced grammar is what the quantifiers range over
JudgeReduced ==
  LET G == Gs[g] IN Reduced(G) \/ Say([g |-> G.name, p |-> "PRE", what |-> "not_reduced"])

=============================================================================
