SPECIFICATION TSpec
CONSTANTS
  Docs <- T_Docs
  Texts <- T_Texts
  ReqKinds <- T_Kinds
  PosClasses <- T_Pos
  UnwrapClasses <- T_Unwrap
  PanicTexts <- T_None
  AsBuilt <- T_AsBuilt
  H = 100000
  MaxInFlight = 1
INVARIANT Accept
INVARIANT Progress
CHECK_DEADLOCK FALSE
