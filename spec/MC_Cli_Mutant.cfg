\* spec-level mutant: the single switch named by the environment variable CLI_SWITCH is on
CONSTANTS
  AsBuilt <- EnvSwitches
  MaxSteps = 2
INIT Init
NEXT MCNext
VIEW MCView
INVARIANTS
  TypeOK
  FreshOnlyIfNoError
  SkeletonsWithGenerated
  ReadOnlyStaysEmpty
PROPERTIES
  PCheckWritesNothing
  PGeneratedOnlyIfNoError
  PSkeletonsOnlyIfNeither
  PUserFilesUntouched
  PExitIffNoError
  POnlyPromisedFiles
  PFormatExitRule
  PFrame
CHECK_DEADLOCK FALSE
