CONSTANTS
 MaxOps = 8
 MaxToks = 3
 AllowBelowSnapshot = TRUE
INIT Init
NEXT Next
INVARIANT Refines
CHECK_DEADLOCK FALSE
