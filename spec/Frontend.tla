------------------------------ MODULE Frontend ------------------------------
(***************************************************************************)
(* Contract specification of lelwel's grammar FRONT END (properties C12    *)
(* and C13).  It is written from the language description of grammar files *)
(* (README + src/frontend/lelwel.llw as documentation of the concrete      *)
(* syntax), not from the generated parser, the lexer or the AST code.      *)
(*                                                                         *)
(*  Part 1  LexItems   the lexical items of the grammar language, their    *)
(*                     canonical spellings and the kind the lexer is meant *)
(*                     to give them; Intended(..) = the intended kind      *)
(*                     sequence of a separated item sequence               *)
(*  Part 2  C12        NoPanic / SpansValid / Tiled / LexesAsIntended over *)
(*                     a record of what the real front end did on a text   *)
(*  Part 3  regex trees, the four precedence levels, normal form (WF),     *)
(*                     minimal parenthesisation (Paren), printing          *)
(*                     (PrintTree), an independent precedence parser       *)
(*                     (Parse) and the round-trip theorem                  *)
(*                     Parse(PrintTree(t)) = Paren(t)                      *)
(*  Part 4  C13        SameStructure / NoSyntaxError / ReadsAsParsed over  *)
(*                     a record (written structure, structure lelwel read) *)
(***************************************************************************)
EXTENDS Naturals, Sequences, FiniteSets, TLC

(***************************************************************************)
(* Part 1.  Lexical items.                                                 *)
(*   s    canonical spelling ("{U+00E9}" stands for that single character, *)
(*        so that the specification itself stays ASCII)                    *)
(*   k    the kind the lexer is meant to report (Debug name of the token)  *)
(*   eats "" | "line" | "all": an unterminated string swallows the rest of *)
(*        its line, an unterminated block comment the rest of the text     *)
(*   has  what the spelling contains that can END such an open item:       *)
(*        "q" a quote, "nl" a newline, "ce" a comment end                  *)
(***************************************************************************)
It(s, k) == [s |-> s, k |-> k, eats |-> "", has |-> {}]
ItH(s, k, has) == [s |-> s, k |-> k, eats |-> "", has |-> has]
ItE(s, k, eats, has) == [s |-> s, k |-> k, eats |-> eats, has |-> has]

Keywords == << It("token", "Token"), It("start", "Start"), It("right", "Right"),
               It("skip", "Skip"), It("part", "Part") >>

Punctuators == << It(":", "Colon"), It(";", "Semi"), It("=", "Equal"), It("(", "LPar"),
                  It(")", "RPar"), It("[", "LBrak"), It("]", "RBrak"), It("|", "Or"),
                  It("*", "Star"), It("+", "Plus"), It("^", "Hat"), It("~", "Tilde"),
                  It("&", "And"), It("/", "Slash") >>

Words == << It("A", "Id"), It("a", "Id"), ItH("'x'", "Str", {"q"}),
            It("?1", "Predicate"), It("?t", "Predicate"), It("#1", "Action"),
            It("!1", "Assertion"), It("@x", "NodeRename"), It("@", "NodeRename"),
            It("<1", "NodeMarker"), It("1>x", "NodeCreation"), It(">x", "NodeCreation"),
            It("1>", "NodeCreation"), It(">", "NodeCreation") >>

Trivia == << ItH("// c\n", "LineComment", {"nl"}), ItH("/// d\n", "DocComment", {"nl"}),
             ItH("/* b */", "BlockComment", {"ce"}), It("\t", "Whitespace") >>

\* items that provoke a lexical diagnostic (the last one does not: it is the legal hard case)
Provoking == << It("$", "Error"), It("{U+00E9}", "Error"),
                ItE("'x", "Error", "line", {"q"}),
                ItE("/* x", "BlockComment", "all", {}),
                ItH("'\\q'", "Str", {"q"}),
                ItH("'\\{U+00E9}'", "Str", {"q"}),      \* invalid escapes of a 2-byte and a 4-byte character
                ItH("'\\{U+1D54F}'", "Str", {"q"}),
                ItH("'\\'\\\\'", "Str", {"q"}) >>

LexItems == Keywords \o Punctuators \o Words \o Trivia \o Provoking
NItems == Len(LexItems)

TokenKinds == {"Token", "Start", "Right", "Skip", "Part", "Colon", "Semi", "Equal", "LPar", "RPar",
               "LBrak", "RBrak", "Or", "Star", "Plus", "Hat", "Tilde", "And", "Slash", "Id", "Str",
               "Predicate", "Action", "Assertion", "NodeRename", "NodeMarker", "NodeCreation",
               "LineComment", "BlockComment", "DocComment", "Whitespace", "Error"}

ItemsWellFormed ==
  /\ \A i \in 1..NItems : LexItems[i].k \in TokenKinds
  /\ \A i, j \in 1..NItems : LexItems[i].s = LexItems[j].s => i = j
  /\ {LexItems[i].k : i \in 1..NItems} = TokenKinds        \* every kind has a representative

ItemSeqs(K) == UNION {[1..n -> 1..NItems] : n \in 0..K}

\* The kinds (whitespace dropped) that a sequence of item indices is MEANT to lex to when the
\* items are joined by the separator sep ("sp" one space, "nl" one newline).  The marker "?" says
\* that the model makes no prediction (an open string or comment is closed by a later item).
RECURSIVE Intended(_, _)
Intended(seq, sep) ==
  IF seq = <<>> THEN <<>>
  ELSE LET h == LexItems[Head(seq)]
           t == Tail(seq)
           later == UNION {LexItems[t[j]].has : j \in DOMAIN t}
       IN CASE h.eats = "all" -> IF "ce" \in later THEN <<"?">> ELSE <<h.k>>
            [] h.eats = "line" /\ sep = "sp" ->
                 IF "q" \in later \/ "nl" \in later THEN <<"?">> ELSE <<h.k>>
            [] h.k = "Whitespace" -> Intended(t, sep)
            [] OTHER -> <<h.k>> \o Intended(t, sep)

NoWs(kinds) == SelectSeq(kinds, LAMBDA k : k # "Whitespace")
SeqToSetF(s) == {s[j] : j \in DOMAIN s}

(***************************************************************************)
(* Part 2.  C12 over a recorded front-end run r:                           *)
(*   r.panic      "" or the stage that panicked                            *)
(*   r.bad_spans  label spans outside the text / off character boundaries  *)
(*                as measured inside the harness                           *)
(*   r.labels     (optional; records re-measured through the exporter)     *)
(*                label spans <<lo, hi>>, r.len the text length in bytes,  *)
(*                r.inner the byte offsets that are NOT character          *)
(*                boundaries                                               *)
(*   r.tiled      the token spans tile the text                            *)
(*   r.kinds      the token kinds the real lexer produced                  *)
(***************************************************************************)
FrontStages == {"lex", "parse", "sema", "render", "hang", "abort"}
NoPanic(r) == r.panic \notin FrontStages

SpanOK(l, r) == /\ l[1] <= l[2]
                /\ l[2] <= r.len
                /\ l[1] \notin SeqToSetF(r.inner)
                /\ l[2] \notin SeqToSetF(r.inner)
SpansValid(r) == /\ r.bad_spans = <<>>
                 /\ "labels" \in DOMAIN r => \A j \in DOMAIN r.labels : SpanOK(r.labels[j], r)
Tiled(r) == r.tiled

Predicted(seq, sep) == "?" \notin SeqToSetF(Intended(seq, sep))
LexesAsIntended(r, seq, sep) == Predicted(seq, sep) => NoWs(r.kinds) = Intended(seq, sep)

(***************************************************************************)
(* Part 3.  Regex trees and the four precedence levels.                    *)
(* A tree is <<k, children>>; k is an operator name or, for a leaf, the    *)
(* item it is written as (children = <<>>).  ("paren", <<>>) is `()`.      *)
(***************************************************************************)
Nary  == {"alt", "oc", "cat"}
Unary == {"paren", "opt", "star", "plus"}
Ops   == Nary \cup Unary
IsLeaf(t) == t[1] \notin Ops

\* binding strength of the construct at the root of t
Prec(t) == CASE t[1] = "alt" -> 0
             [] t[1] = "oc" -> 1
             [] t[1] = "cat" -> 2
             [] t[1] \in {"star", "plus"} -> 3
             [] OTHER -> 4                     \* atoms: leaf, (..), [..]
\* weakest construct that may stand directly (without parentheses) below a k-node:
\* postfix > concatenation > ordered choice > alternation; the n-ary operators are flat, so an
\* operand of the same level needs parentheses as well; brackets reset the level.
MinPrec(k) == CASE k = "alt" -> 1
                [] k = "oc" -> 2
                [] k = "cat" -> 3
                [] k \in {"star", "plus"} -> 3
                [] OTHER -> 0

RECURSIVE WF(_)
WF(t) == \A j \in DOMAIN t[2] : Prec(t[2][j]) >= MinPrec(t[1]) /\ WF(t[2][j])

\* minimal parenthesisation: a paren node exactly where the levels demand one
RECURSIVE Paren(_)
Paren(t) ==
  <<t[1], [j \in DOMAIN t[2] |->
            LET c == Paren(t[2][j]) IN
            IF Prec(c) < MinPrec(t[1]) THEN <<"paren", <<c>>>> ELSE c]>>

RECURSIVE Flat(_), FlatJoin(_, _)
FlatJoin(cs, sepItems) ==
  IF Len(cs) = 1 THEN Flat(cs[1]) ELSE Flat(cs[1]) \o sepItems \o FlatJoin(Tail(cs), sepItems)
Flat(t) ==
  CASE t[1] = "alt"   -> FlatJoin(t[2], <<"|">>)
    [] t[1] = "oc"    -> FlatJoin(t[2], <<"/">>)
    [] t[1] = "cat"   -> FlatJoin(t[2], <<>>)
    [] t[1] = "paren" -> <<"(">> \o (IF t[2] = <<>> THEN <<>> ELSE Flat(t[2][1])) \o <<")">>
    [] t[1] = "opt"   -> <<"[">> \o Flat(t[2][1]) \o <<"]">>
    [] t[1] = "star"  -> Flat(t[2][1]) \o <<"*">>
    [] t[1] = "plus"  -> Flat(t[2][1]) \o <<"+">>
    [] OTHER          -> <<t[1]>>

\* (named PrintTree because the standard module TLC already defines Print)
PrintTree(t) == Flat(Paren(t))

\* --- the reader: a precedence parser over item sequences, one level per function ----------
\* A result is [t |-> tree, p |-> next position]; p = 0 signals failure.
Fail == [t |-> <<"error", <<>>>>, p |-> 0]
PunctItems == {"|", "/", "(", ")", "[", "]", "*", "+", ";", ":", "="}
StartsAtom(x) == x \notin {"|", "/", ")", "]", "*", "+", ";", ":", "="}
At(its, p) == IF p >= 1 /\ p <= Len(its) THEN its[p] ELSE ";"

\* Lower (sepItem Lower)*  -- or Lower+ when sepItem = "" (juxtaposition)
RECURSIVE Operands(_, _, _, _, _)
Operands(Lower(_, _), sepItem, its, p, acc) ==
  LET r == Lower(its, p) IN
  IF r.p = 0 THEN [ts |-> <<>>, p |-> 0]
  ELSE LET acc2 == Append(acc, r.t) IN
       IF sepItem = "" THEN
         IF StartsAtom(At(its, r.p)) THEN Operands(Lower, sepItem, its, r.p, acc2)
         ELSE [ts |-> acc2, p |-> r.p]
       ELSE IF At(its, r.p) = sepItem THEN Operands(Lower, sepItem, its, r.p + 1, acc2)
       ELSE [ts |-> acc2, p |-> r.p]

Level(k, l) == IF l.p = 0 THEN Fail
               ELSE IF Len(l.ts) = 1 THEN [t |-> l.ts[1], p |-> l.p]
               ELSE [t |-> <<k, l.ts>>, p |-> l.p]

RECURSIVE PAlt(_, _), POc(_, _), PCat(_, _), PPost(_, _), PAtom(_, _), PSuffix(_, _)
PAlt(its, p)  == Level("alt", Operands(POc, "|", its, p, <<>>))
POc(its, p)   == Level("oc", Operands(PCat, "/", its, p, <<>>))
PCat(its, p)  == Level("cat", Operands(PPost, "", its, p, <<>>))
PSuffix(its, r) ==
  IF r.p = 0 THEN Fail
  ELSE IF At(its, r.p) = "*" THEN PSuffix(its, [t |-> <<"star", <<r.t>>>>, p |-> r.p + 1])
  ELSE IF At(its, r.p) = "+" THEN PSuffix(its, [t |-> <<"plus", <<r.t>>>>, p |-> r.p + 1])
  ELSE r
PPost(its, p) == PSuffix(its, PAtom(its, p))
PAtom(its, p) ==
  LET x == At(its, p) IN
  IF p > Len(its) THEN Fail
  ELSE IF x = "(" THEN
    IF At(its, p + 1) = ")" THEN [t |-> <<"paren", <<>>>>, p |-> p + 2]
    ELSE LET r == PAlt(its, p + 1) IN
         IF r.p # 0 /\ At(its, r.p) = ")" /\ r.p <= Len(its)
         THEN [t |-> <<"paren", <<r.t>>>>, p |-> r.p + 1] ELSE Fail
  ELSE IF x = "[" THEN
    LET r == PAlt(its, p + 1) IN
    IF r.p # 0 /\ At(its, r.p) = "]" /\ r.p <= Len(its)
    THEN [t |-> <<"opt", <<r.t>>>>, p |-> r.p + 1] ELSE Fail
  ELSE IF x \in PunctItems THEN Fail
  ELSE [t |-> <<x, <<>>>>, p |-> p + 1]

Parse(its) == LET r == PAlt(its, 1) IN IF r.p = Len(its) + 1 THEN r.t ELSE Fail.t

\* --- the round-trip theorem (checked by TLC for every enumerated tree) ---------------------
\*  (1) the minimal parenthesisation is in normal form and adds nothing to a normal-form tree
\*  (2) reading what was printed gives back the (parenthesised) tree:  Parse(PrintTree(t)) = Paren(t),
\*      hence Parse(PrintTree(t)) = t for every normal-form tree
\*  (3) the parentheses are necessary: printed without them, a tree that is not in normal form
\*      reads back as a different tree:  Parse(Flat(t)) = t  <=>  WF(t)
RoundTrip(t) ==
  LET n == Paren(t) IN
  /\ WF(n)
  /\ WF(t) <=> (n = t)
  /\ Parse(PrintTree(t)) = n
  /\ (Parse(Flat(t)) = t) <=> WF(t)

\* --- enumeration of trees: exactly n nodes, height <= h (a leaf has height 1) ---------------
RECURSIVE TS(_, _, _)
TS(Leaves, n, h) ==
  IF n < 1 \/ h < 1 THEN {}
  ELSE IF n = 1 THEN {<<l, <<>>>> : l \in Leaves} \cup {<<"paren", <<>>>>}
  ELSE {<<u, <<c>>>> : u \in Unary, c \in TS(Leaves, n - 1, h - 1)}
       \cup {<<k, <<pr[1], pr[2]>>>> : k \in Nary,
               pr \in UNION {TS(Leaves, a, h - 1) \X TS(Leaves, n - 1 - a, h - 1) : a \in 1..(n - 2)}}
       \cup {<<k, <<pr[1], pr[2], pr[3]>>>> : k \in Nary,
               pr \in UNION {TS(Leaves, ab[1], h - 1) \X TS(Leaves, ab[2], h - 1)
                               \X TS(Leaves, n - 1 - ab[1] - ab[2], h - 1) :
                             ab \in {x \in (1..(n - 3)) \X (1..(n - 3)) : x[1] + x[2] <= n - 2}}}
\* every regex operator, nested to operator depth <= D (height D + 1), at most N nodes
AstGen(Leaves, N, D) == UNION {TS(Leaves, n, D + 1) : n \in 1..N}

RECURSIVE Size(_), SumSizes(_)
SumSizes(cs) == IF cs = <<>> THEN 0 ELSE Size(Head(cs)) + SumSizes(Tail(cs))
Size(t) == 1 + SumSizes(t[2])

\* pre-order node table of a tree: <<[k, c]>>, node ids starting at id (the exporter's numbering)
RECURSIVE Table(_, _), Tables(_, _)
Tables(cs, id) == IF cs = <<>> THEN <<>> ELSE Table(Head(cs), id) \o Tables(Tail(cs), id + Size(Head(cs)))
RECURSIVE ChildIds(_, _)
ChildIds(cs, id) == IF cs = <<>> THEN <<>> ELSE <<id>> \o ChildIds(Tail(cs), id + Size(Head(cs)))
Table(t, id) ==
  <<[k |-> IF IsLeaf(t) THEN "leaf" ELSE t[1], c |-> ChildIds(t[2], id + 1)]>> \o Tables(t[2], id + 1)

(***************************************************************************)
(* Part 4.  C13 over a record r:                                           *)
(*   r.w        the structure that was WRITTEN                             *)
(*   r.rd       the structure lelwel READ (typed view, exporter)           *)
(*   r.nsyntax  number of syntax diagnostics                               *)
(*   r.bodies   per rule (file order) the item sequence of its body as it  *)
(*              was written                                                *)
(***************************************************************************)
StructFields == <<"tokens", "skip", "right", "starts", "parts", "rules", "nodes">>
SameField(r, f) == r.w[f] = r.rd[f]
SameStructure(r) == \A j \in DOMAIN StructFields : SameField(r, StructFields[j])
NoSyntaxError(r) == r.nsyntax = 0

\* operator skeleton of lelwel's node table between two ids
Skeleton(nodes, lo, hi) ==
  [j \in 1..(hi - lo + 1) |->
     [k |-> IF nodes[lo + j - 1].k \in Ops THEN nodes[lo + j - 1].k ELSE "leaf",
      c |-> nodes[lo + j - 1].c]]

\* The nesting lelwel read for rule number j is the nesting the model's own precedence parser
\* reads from the written item sequence (independent of any tree the writer had in mind).
ReadsAsParsed(r, j) ==
  LET body == r.bodies[j]
      root == r.rd.rules[j].body
  IN IF body = <<>> THEN root = 0
     ELSE LET t == Parse(body) IN
          /\ t # Fail.t
          /\ root >= 1
          /\ root + Size(t) - 1 <= Len(r.rd.nodes)
          /\ Skeleton(r.rd.nodes, root, root + Size(t) - 1) = Table(t, root)
=============================================================================
