INIT Init
NEXT Next
INVARIANT BelowFixpoint
INVARIANT FirstCompleteBeforeFollow
INVARIANT FollowCompleteBeforeUsage
INVARIANT UsageStable
CHECK_DEADLOCK FALSE
