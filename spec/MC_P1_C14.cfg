INIT Init
NEXT Next
INVARIANT JudgeC14
INVARIANT JudgeReduced
CHECK_DEADLOCK FALSE
