SPECIFICATION Spec
CONSTANTS
  Docs <- MC_Docs
  Texts <- MC_Texts2
  ReqKinds <- MC_ReqKinds
  PosClasses <- MC_PosClasses
  UnwrapClasses <- MC_Unwrap
  PanicTexts <- MC_None
  AsBuilt <- MC_None
  H = 3
  MaxInFlight = 2
INVARIANT ServerAlive
PROPERTY Returns
CHECK_DEADLOCK FALSE
