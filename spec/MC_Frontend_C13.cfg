INIT JInit
NEXT JNext
INVARIANT JudgeC13
CHECK_DEADLOCK FALSE
