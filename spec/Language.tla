------------------------------- MODULE Language -------------------------------
(***************************************************************************)
(* Contract layer, language side: what a grammar denotes, independent of   *)
(* any parsing strategy.                                                   *)
(*   Ends    chart (least fixpoint over construct x position): the set of  *)
(*           positions at which a construct started at i can end; handles  *)
(*           left recursion by the fixpoint                                *)
(*   InL     membership                                                    *)
(*   Off     prefix viability: the rest of a prefix is a prefix of some    *)
(*           string of the construct (all rules productive)                *)
(*   FirstErrorPos  index of the first token after which no sentence can   *)
(*           continue                                                      *)
(*   DT      the derivation tree with node operators applied (C05)         *)
(***************************************************************************)
EXTENDS Grammar

Strip(G, w) == SelectSeq(w, LAMBDA x : x \notin (SeqToSet(G.skip) \cup {"Error"}))

RootNode(G, en) == IF en = 0 THEN BodyOf(G, G.start) ELSE BodyOf(G, G.parts[en].name)

(***************************************************************************)
(* The chart.                                                              *)
(***************************************************************************)
RECURSIVE CatEnds(_, _, _, _)
\* positions reachable from the set S after the operands cs[j..]
CatEnds(E, cs, j, S) ==
  IF j > Len(cs) THEN S
  ELSE CatEnds(E, cs, j + 1, UNION {E[cs[j]][p] : p \in S})

RECURSIVE CatEndsUpTo(_, _, _, _, _)
\* positions reachable from S after the operands cs[j..last]
CatEndsUpTo(E, cs, j, last, S) ==
  IF j > last THEN S
  ELSE CatEndsUpTo(E, cs, j + 1, last, UNION {E[cs[j]][p] : p \in S})

EndsStep(G, u, E) ==
  [n \in Nodes(G) |-> [i \in 0..Len(u) |->
     LET k == K(G, n)  c == C(G, n) IN
     CASE k = "tok" -> IF i < Len(u) /\ u[i + 1] = G.nodes[n].t THEN {i + 1} ELSE {}
       [] k = "ref" -> LET b == BodyOf(G, G.nodes[n].r) IN IF b = 0 THEN {i} ELSE E[b][i]
       [] k = "cat" -> CatEnds(E, c, 1, {i})
       [] k \in {"alt", "oc"} -> UNION {E[c[j]][i] : j \in DOMAIN c}
       [] k = "star" -> {i} \cup UNION {E[n][p] : p \in E[c[1]][i]}
       [] k = "plus" -> UNION {{p} \cup E[n][p] : p \in E[c[1]][i]}
       [] k = "opt" -> {i} \cup E[c[1]][i]
       [] k = "paren" -> IF c = <<>> THEN {i} ELSE E[c[1]][i]
       [] OTHER -> {i}]]

Ends(G, u) ==
  LET Step(GG, E) == EndsStep(GG, u, E)
  IN Lfp(Step, G, [n \in Nodes(G) |-> [i \in 0..Len(u) |-> {}]])

InLWith(G, E, en, u) ==
  LET r == RootNode(G, en) IN IF r = 0 THEN u = <<>> ELSE Len(u) \in E[r][0]

InL(G, en, u) == InLWith(G, Ends(G, u), en, u)

(***************************************************************************)
(* Prefix viability for the prefix u[1..k].                                *)
(***************************************************************************)
OffStep(G, u, k, E, O) ==
  [n \in Nodes(G) |-> [i \in 0..k |->
     \/ i = k
     \/ LET kd == K(G, n)  c == C(G, n) IN
        CASE kd = "tok" -> i = k - 1 /\ u[k] = G.nodes[n].t
          [] kd = "ref" -> LET b == BodyOf(G, G.nodes[n].r) IN b # 0 /\ O[b][i]
          [] kd = "cat" -> \E j \in DOMAIN c :
                             \E p \in CatEndsUpTo(E, c, 1, j - 1, {i}) : p <= k /\ O[c[j]][p]
          [] kd \in {"alt", "oc"} -> \E j \in DOMAIN c : O[c[j]][i]
          [] kd = "star" -> \E p \in E[n][i] : p <= k /\ O[c[1]][p]
          [] kd = "plus" -> O[c[1]][i] \/ \E p \in E[n][i] : p <= k /\ O[c[1]][p]
          [] kd = "opt" -> O[c[1]][i]
          [] kd = "paren" -> c # <<>> /\ O[c[1]][i]
          [] OTHER -> FALSE]]

Off(G, u, k, E) ==
  LET Step(GG, O) == OffStep(GG, u, k, E, O)
  IN Lfp(Step, G, [n \in Nodes(G) |-> [i \in 0..k |-> i = k]])

Viable(G, u, k, E, en) ==
  LET r == RootNode(G, en) IN IF r = 0 THEN k = 0 ELSE Off(G, u, k, E)[r][0]

\* 0-based index (in u) of the first offending token; Len(u) = error at end of input;
\* -1 = u is a sentence
FirstErrorPos(G, u, en) ==
  LET E == Ends(G, u)
      bad == {k \in 1..Len(u) : ~Viable(G, u, k, E, en)}
  IN IF bad # {} THEN (CHOOSE k \in bad : \A m \in bad : k <= m) - 1
     ELSE IF InLWith(G, E, en, u) THEN 0 - 1 ELSE Len(u)

\* index in w (0-based) of the (p+1)-th non-skipped token; Len(w) when there is none
RECURSIVE OrigIndex(_, _, _, _)
OrigIndex(G, w, p, at) ==
  IF at > Len(w) THEN Len(w)
  ELSE IF w[at] \in (SeqToSet(G.skip) \cup {"Error"}) THEN OrigIndex(G, w, p, at + 1)
  ELSE IF p = 0 THEN at - 1 ELSE OrigIndex(G, w, p - 1, at + 1)

(***************************************************************************)
(* Derivation tree with node operators (C05).                              *)
(* Trees: <<"t", token>> | <<"r", kind, children>>; control items start    *)
(* with "@".  Defined for grammars without ordered choice, predicates,     *)
(* assertions and left recursion, where the derivation is unique.          *)
(***************************************************************************)
RECURSIVE Items(_, _, _, _, _, _), CatItems(_, _, _, _, _, _, _), ApplyOps(_, _, _, _, _, _, _)

RuleNode(G, ri, its) ==
  LET res == ApplyOps(G, ri, its, 1, <<>>, [x \in {} |-> 0], [kind |-> G.rules[ri].name, elide |-> FALSE])
  IN IF G.rules[ri].elided \/ res.elide THEN res.out
     ELSE << <<"r", res.kind, res.out>> >>

ApplyOps(G, ri, its, k, out, marks, st) ==
  IF k > Len(its) THEN [out |-> out, kind |-> st.kind, elide |-> st.elide]
  ELSE LET it == its[k] IN
    CASE it[1] = "@rename" -> ApplyOps(G, ri, its, k + 1, out, marks, [st EXCEPT !.kind = it[2]])
      [] it[1] = "@elide" -> ApplyOps(G, ri, its, k + 1, out, marks, [st EXCEPT !.elide = TRUE])
      [] it[1] = "@mark" ->
           ApplyOps(G, ri, its, k + 1, out,
                    [x \in (DOMAIN marks) \cup {it[2]} |-> IF x = it[2] THEN Len(out) ELSE marks[x]], st)
      [] it[1] = "@create" ->
           LET p  == IF it[2] = "" THEN 0 ELSE marks[it[2]]
               nm == IF it[3] = "" THEN G.rules[ri].name ELSE it[3]
           IN ApplyOps(G, ri, its, k + 1,
                       SubSeq(out, 1, p) \o << <<"r", nm, SubSeq(out, p + 1, Len(out))>> >>, marks, st)
      [] it[1] = "@act" /\ it[3] = "" ->
           ApplyOps(G, ri, its, k + 1, Append(out, <<"@act", it[2], G.rules[ri].name>>), marks, st)
      [] OTHER -> ApplyOps(G, ri, its, k + 1, Append(out, it), marks, st)

\* items produced by deriving u[i+1..j] from construct n (requires j \in E[n][i])
Items(G, u, E, n, i, j) ==
  LET k == K(G, n)  c == C(G, n) IN
  CASE k = "tok" -> << <<"t", G.nodes[n].t>> >>
    [] k = "ref" ->
         LET ri == RuleByName(G, G.nodes[n].r)
             b  == G.rules[ri].body
         IN RuleNode(G, ri, IF b = 0 THEN <<>> ELSE Items(G, u, E, b, i, j))
    [] k = "cat" -> CatItems(G, u, E, c, 1, i, j)
    [] k \in {"alt", "oc"} ->
         LET ok == {x \in DOMAIN c : j \in E[c[x]][i]}
             x  == CHOOSE x \in ok : \A y \in ok : x <= y
         IN Items(G, u, E, c[x], i, j)
    [] k = "star" ->
         IF i = j THEN <<>>
         ELSE LET ps == {p \in E[c[1]][i] : p > i /\ j \in E[n][p]}
                  p  == CHOOSE p \in ps : \A q \in ps : p <= q
              IN Items(G, u, E, c[1], i, p) \o Items(G, u, E, n, p, j)
    [] k = "plus" ->
         LET ps == {p \in E[c[1]][i] : p = j \/ (p > i /\ j \in E[n][p])}
             p  == CHOOSE p \in ps : \A q \in ps : p <= q
         IN Items(G, u, E, c[1], i, p) \o (IF p = j THEN <<>> ELSE Items(G, u, E, n, p, j))
    [] k = "opt" -> IF i = j THEN <<>> ELSE Items(G, u, E, c[1], i, j)
    [] k = "paren" -> IF c = <<>> THEN <<>> ELSE Items(G, u, E, c[1], i, j)
    [] k = "rename" -> << <<"@rename", G.nodes[n].name>> >>
    [] k = "elide" -> << <<"@elide">> >>
    [] k = "mark" -> << <<"@mark", G.nodes[n].num>> >>
    [] k = "create" -> << <<"@create", G.nodes[n].num, G.nodes[n].name>> >>
    [] k = "act" -> << <<"@act", G.nodes[n].num, "">> >>
    [] OTHER -> <<>>

CatItems(G, u, E, cs, x, i, j) ==
  IF x > Len(cs) THEN <<>>
  ELSE LET ps == {p \in E[cs[x]][i] : j \in CatEnds(E, cs, x + 1, {p})}
           p  == CHOOSE p \in ps : \A q \in ps : p <= q
       IN Items(G, u, E, cs[x], i, p) \o CatItems(G, u, E, cs, x + 1, p, j)

\* the whole tree for entry point en: the start rule is the root itself; a part is wrapped
\* in a root of kind "part"
DT(G, u, en) ==
  LET E  == Ends(G, u)
      nm == IF en = 0 THEN G.start ELSE G.parts[en].name
      ri == RuleByName(G, nm)
      b  == G.rules[ri].body
      its == IF b = 0 THEN <<>> ELSE Items(G, u, E, b, 0, Len(u))
  IN IF en = 0
     THEN LET res == ApplyOps(G, ri, its, 1, <<>>, [x \in {} |-> 0], [kind |-> nm, elide |-> FALSE])
          IN <<"r", res.kind, res.out>>
     ELSE <<"r", "part", RuleNode(G, ri, its)>>

RECURSIVE ActsOf(_), ActsOfSeq(_, _), NoActs(_), NoActsSeq(_, _)
ActsOf(t) == IF t[1] = "@act" THEN <<t[3] \o "_" \o t[2]>> ELSE IF t[1] = "t" THEN <<>> ELSE ActsOfSeq(t[3], 1)
ActsOfSeq(cs, i) == IF i > Len(cs) THEN <<>> ELSE ActsOf(cs[i]) \o ActsOfSeq(cs, i + 1)
NoActs(t) == IF t[1] = "t" THEN t ELSE <<"r", t[2], NoActsSeq(t[3], 1)>>
NoActsSeq(cs, i) ==
  IF i > Len(cs) THEN <<>>
  ELSE IF cs[i][1] = "@act" THEN NoActsSeq(cs, i + 1)
  ELSE <<NoActs(cs[i])>> \o NoActsSeq(cs, i + 1)

=============================================================================
