------------------------------- MODULE Language -------------------------------
(***************************************************************************)
(* Contract layer, language side: what a grammar denotes, independent of   *)
(* any parsing strategy.                                                   *)
(*   Ends    chart (least fixpoint over construct x position): the set of  *)
(*           positions at which a construct started at i can end; handles  *)
(*           left recursion by the fixpoint                                *)
(*   InL     membership                                                    *)
(*   Off     prefix viability: the rest of a prefix is a prefix of some    *)
(*           string of the construct (all rules productive)                *)
(*   FirstErrorPos  index of the first token after which no sentence can   *)
(*           continue                                                      *)
(*   DT      the derivation tree with node operators applied (C05)         *)
(***************************************************************************)
EXTENDS Grammar

Strip(G, w) == SelectSeq(w, LAMBDA x : x \notin (SeqToSet(G.skip) \cup {"Error"}))

RootNode(G, en) == IF en = 0 THEN BodyOf(G, G.start) ELSE BodyOf(G, G.parts[en].name)

(***************************************************************************)
(* The chart.                                                              *)
(***************************************************************************)
RECURSIVE CatEnds(_, _, _, _)
\* positions reachable from the set S after the operands cs[j..]
CatEnds(E, cs, j, S) ==
  IF j > Len(cs) THEN S
  ELSE CatEnds(E, cs, j + 1, UNION {E[cs[j]][p] : p \in S})

RECURSIVE CatEndsUpTo(_, _, _, _, _)
\* positions reachable from S after the operands cs[j..last]
CatEndsUpTo(E, cs, j, last, S) ==
  IF j > last THEN S
  ELSE CatEndsUpTo(E, cs, j + 1, last, UNION {E[cs[j]][p] : p \in S})

EndsStep(G, u, E) ==
  [n \in Nodes(G) |-> [i \in 0..Len(u) |->
     LET k == K(G, n)  c == C(G, n) IN
     CASE k = "tok" -> IF i < Len(u) /\ u[i + 1] = G.nodes[n].t THEN {i + 1} ELSE {}
       [] k = "ref" -> LET b == BodyOf(G, G.nodes[n].r) IN IF b = 0 THEN {i} ELSE E[b][i]
       [] k = "cat" -> CatEnds(E, c, 1, {i})
       [] k \in {"alt", "oc"} -> UNION {E[c[j]][i] : j \in DOMAIN c}
       [] k = "star" -> {i} \cup UNION {E[n][p] : p \in E[c[1]][i]}
       [] k = "plus" -> UNION {{p} \cup E[n][p] : p \in E[c[1]][i]}
       [] k = "opt" -> {i} \cup E[c[1]][i]
       [] k = "paren" -> IF c = <<>> THEN {i} ELSE E[c[1]][i]
       [] OTHER -> {i}]]

Ends(G, u) ==
  LET Step(GG, E) == EndsStep(GG, u, E)
  IN Lfp(Step, G, [n \in Nodes(G) |-> [i \in 0..Len(u) |-> {}]])

InLWith(G, E, en, u) ==
  LET r == RootNode(G, en) IN IF r = 0 THEN u = <<>> ELSE Len(u) \in E[r][0]

InL(G, en, u) == InLWith(G, Ends(G, u), en, u)

(***************************************************************************)
(* Prefix viability for the prefix u[1..k].                                *)
(***************************************************************************)
OffStep(G, u, k, E, O) ==
  [n \in Nodes(G) |-> [i \in 0..k |->
     \/ i = k
     \/ LET kd == K(G, n)  c == C(G, n) IN
        CASE kd = "tok" -> i = k - 1 /\ u[k] = G.nodes[n].t
          [] kd = "ref" -> LET b == BodyOf(G, G.nodes[n].r) IN b # 0 /\ O[b][i]
          [] kd = "cat" -> \E j \in DOMAIN c :
                             \E p \in CatEndsUpTo(E, c, 1, j - 1, {i}) : p <= k /\ O[c[j]][p]
          [] kd \in {"alt", "oc"} -> \E j \in DOMAIN c : O[c[j]][i]
          [] kd = "star" -> \E p \in E[n][i] : p <= k /\ O[c[1]][p]
          [] kd = "plus" -> O[c[1]][i] \/ \E p \in E[n][i] : p <= k /\ O[c[1]][p]
          [] kd = "opt" -> O[c[1]][i]
          [] kd = "paren" -> c # <<>> /\ O[c[1]][i]
          [] OTHER -> FALSE]]

Off(G, u, k, E) ==
  LET Step(GG, O) == OffStep(GG, u, k, E, O)
  IN Lfp(Step, G, [n \in Nodes(G) |-> [i \in 0..k |-> i = k]])

Viable(G, u, k, E, en) ==
  LET r == RootNode(G, en) IN IF r = 0 THEN k = 0 ELSE Off(G, u, k, E)[r][0]

\* 0-based index (in u) of the first offending token; Len(u) = error at end of input;
\* -1 = u is a sentence
FirstErrorPos(G, u, en) ==
  LET E == Ends(G, u)
      bad == {k \in 1..Len(u) : ~Viable(G, u, k, E, en)}
  IN IF bad # {} THEN (CHOOSE k \in bad : \A m \in bad : k <= m) - 1
     ELSE IF InLWith(G, E, en, u) THEN 0 - 1 ELSE Len(u)

\* index in w (0-based) of the (p+1)-th non-skipped token; Len(w) when there is none
RECURSIVE OrigIndex(_, _, _, _)
OrigIndex(G, w, p, at) ==
  IF at > Len(w) THEN Len(w)
  ELSE IF w[at] \in (SeqToSet(G.skip) \cup {"Error"}) THEN OrigIndex(G, w, p, at + 1)
  ELSE IF p = 0 THEN at - 1 ELSE OrigIndex(G, w, p - 1, at + 1)

(***************************************************************************)
(* Derivation tree with node operators (C05).                              *)
(* Trees: <<"t", token>> | <<"r", kind, children>>; control items start    *)
(* with "@".  Defined for grammars without ordered choice, predicates,     *)
(* assertions and left recursion, where the derivation is unique.          *)
(***************************************************************************)
RECURSIVE Items(_, _, _, _, _, _), CatItems(_, _, _, _, _, _, _), ApplyOps(_, _, _, _, _, _, _)
RECURSIVE PrattTrees(_, _, _, _, _, _), BranchSeqs(_, _, _, _, _, _, _, _, _, _, _, _)
RECURSIVE RightSpineOK(_, _, _, _, _), LeftSpineOK(_, _, _, _, _), ConsistentCand(_, _, _, _)

RuleNode(G, ri, its) ==
  LET res == ApplyOps(G, ri, its, 1, <<>>, [x \in {} |-> 0], [kind |-> G.rules[ri].name, elide |-> FALSE])
  IN IF G.rules[ri].elided \/ res.elide THEN res.out
     ELSE << <<"r", res.kind, res.out>> >>

ApplyOps(G, ri, its, k, out, marks, st) ==
  IF k > Len(its) THEN [out |-> out, kind |-> st.kind, elide |-> st.elide]
  ELSE LET it == its[k] IN
    CASE it[1] = "@rename" -> ApplyOps(G, ri, its, k + 1, out, marks, [st EXCEPT !.kind = it[2]])
      [] it[1] = "@elide" -> ApplyOps(G, ri, its, k + 1, out, marks, [st EXCEPT !.elide = TRUE])
      [] it[1] = "@mark" ->
           ApplyOps(G, ri, its, k + 1, out,
                    [x \in (DOMAIN marks) \cup {it[2]} |-> IF x = it[2] THEN Len(out) ELSE marks[x]], st)
      [] it[1] = "@create" ->
           LET p  == IF it[2] = "" THEN 0 ELSE marks[it[2]]
               nm == IF it[3] = "" THEN G.rules[ri].name ELSE it[3]
           IN ApplyOps(G, ri, its, k + 1,
                       SubSeq(out, 1, p) \o << <<"r", nm, SubSeq(out, p + 1, Len(out))>> >>, marks, st)
      [] it[1] = "@act" /\ it[3] = "" ->
           ApplyOps(G, ri, its, k + 1, Append(out, <<"@act", it[2], G.rules[ri].name>>), marks, st)
      [] OTHER -> ApplyOps(G, ri, its, k + 1, Append(out, it), marks, st)

\* items produced by deriving u[i+1..j] from construct n (requires j \in E[n][i])
Items(G, u, E, n, i, j) ==
  LET k == K(G, n)  c == C(G, n) IN
  CASE k = "tok" -> << <<"t", G.nodes[n].t>> >>
    [] k = "ref" ->
         LET ri == RuleByName(G, G.nodes[n].r)
             b  == G.rules[ri].body
         IN IF IsPrattRule(G, ri)
            THEN LET cs == {t \in PrattTrees(G, u, E, ri, i, j) : ConsistentCand(G, First(G), ri, t)}
                 IN IF cs = {} THEN <<>> ELSE RuleNode(G, ri, (CHOOSE t \in cs : TRUE).its)
            ELSE RuleNode(G, ri, IF b = 0 THEN <<>> ELSE Items(G, u, E, b, i, j))
    [] k = "cat" -> CatItems(G, u, E, c, 1, i, j)
    [] k \in {"alt", "oc"} ->
         LET ok == {x \in DOMAIN c : j \in E[c[x]][i]}
             x  == CHOOSE x \in ok : \A y \in ok : x <= y
         IN Items(G, u, E, c[x], i, j)
    [] k = "star" ->
         IF i = j THEN <<>>
         ELSE LET ps == {p \in E[c[1]][i] : p > i /\ j \in E[n][p]}
                  p  == CHOOSE p \in ps : \A q \in ps : p <= q
              IN Items(G, u, E, c[1], i, p) \o Items(G, u, E, n, p, j)
    [] k = "plus" ->
         LET ps == {p \in E[c[1]][i] : p = j \/ (p > i /\ j \in E[n][p])}
             p  == CHOOSE p \in ps : \A q \in ps : p <= q
         IN Items(G, u, E, c[1], i, p) \o (IF p = j THEN <<>> ELSE Items(G, u, E, n, p, j))
    [] k = "opt" -> IF i = j THEN <<>> ELSE Items(G, u, E, c[1], i, j)
    [] k = "paren" -> IF c = <<>> THEN <<>> ELSE Items(G, u, E, c[1], i, j)
    [] k = "rename" -> << <<"@rename", G.nodes[n].name>> >>
    [] k = "elide" -> << <<"@elide">> >>
    [] k = "mark" -> << <<"@mark", G.nodes[n].num>> >>
    [] k = "create" -> << <<"@create", G.nodes[n].num, G.nodes[n].name>> >>
    [] k = "act" -> << <<"@act", G.nodes[n].num, "">> >>
    [] OTHER -> <<>>

CatItems(G, u, E, cs, x, i, j) ==
  IF x > Len(cs) THEN <<>>
  ELSE LET ps == {p \in E[cs[x]][i] : j \in CatEnds(E, cs, x + 1, {p})}
           p  == CHOOSE p \in ps : \A q \in ps : p <= q
       IN Items(G, u, E, cs[x], i, p) \o CatItems(G, u, E, cs, x + 1, p, j)

(***************************************************************************)
(* Left-recursive (Pratt) rules, C07.  The rule is an ambiguous CFG; the   *)
(* chart enumerates every derivation tree of the operator expression, and  *)
(* the precedence / associativity rules of the property statement filter   *)
(* them:  earlier branch binds tighter; one branch groups to the left      *)
(* unless its operator tokens are declared `right`.  A candidate is        *)
(*   [br, its, l, r, m]   branch index, items, left / right operand        *)
(*   candidates (NoCand if the branch has none) and middle operands.       *)
(***************************************************************************)
NoCand == [br |-> 0]

BranchOps(G, n) == IF K(G, n) = "cat" THEN C(G, n) ELSE <<n>>
LeftOperand(G, n, ri)  == IF LeftRec(G, n, ri) THEN Opnds(G, n)[1] ELSE 0
RightOperand(G, n, ri) == IF RightRec(G, n, ri) THEN Opnds(G, n)[Len(Opnds(G, n))] ELSE 0

PrattTrees(G, u, E, ri, i, j) ==
  LET brs == C(G, G.rules[ri].body) IN
  UNION { { [br |-> x, its |-> q.its, l |-> q.l, r |-> q.r, m |-> q.m] :
            q \in BranchSeqs(G, u, E, ri, BranchOps(G, brs[x]), 1, i, j, i, j,
                             LeftOperand(G, brs[x], ri), RightOperand(G, brs[x], ri)) }
          : x \in DOMAIN brs }

\* all ways to derive u[p+1..j] from the operands ops[x..]; (i0, j0) is the extent of the branch
BranchSeqs(G, u, E, ri, ops, x, p, j, i0, j0, ln, rn) ==
  IF x > Len(ops) THEN (IF p = j THEN {[its |-> <<>>, l |-> NoCand, r |-> NoCand, m |-> <<>>]} ELSE {})
  ELSE LET c == ops[x] IN
    IF IsSelfRef(G, c, ri) THEN
      UNION { UNION { { [its |-> RuleNode(G, ri, sub.its) \o rest.its,
                          l |-> IF c = ln THEN sub ELSE rest.l,
                          r |-> IF c = rn THEN sub ELSE rest.r,
                          m |-> IF c # ln /\ c # rn THEN <<sub>> \o rest.m ELSE rest.m] :
                        rest \in BranchSeqs(G, u, E, ri, ops, x + 1, q, j, i0, j0, ln, rn) }
                      : sub \in PrattTrees(G, u, E, ri, p, q) }
              : q \in {q \in E[c][p] : q <= j /\ q - p < j0 - i0} }
    ELSE
      UNION { { [its |-> Items(G, u, E, c, p, q) \o rest.its, l |-> rest.l, r |-> rest.r, m |-> rest.m] :
                rest \in BranchSeqs(G, u, E, ri, ops, x + 1, q, j, i0, j0, ln, rn) }
              : q \in {q \in E[c][p] : q <= j} }

BranchOf(G, ri, x) == C(G, G.rules[ri].body)[x]
\* a branch groups to the right iff all its operator tokens are declared right-associative
RightAssoc(G, F, ri, x) ==
  LET n == BranchOf(G, ri, x) IN
  /\ LeftRec(G, n, ri) /\ Len(Opnds(G, n)) >= 2
  /\ LET toks == F[OperatorOf(G, n)] \ {EPS} IN toks # {} /\ toks \subseteq SeqToSet(G.right)

\* every operator on the right edge of T that is open to the right binds tighter than level p
\* (or is p itself when that is allowed)
RightSpineOK(G, ri, T, p, allowEq) ==
  \/ T.br = 0
  \/ T.r.br = 0
  \/ /\ (T.br < p \/ (T.br = p /\ allowEq))
     /\ RightSpineOK(G, ri, T.r, p, allowEq)
LeftSpineOK(G, ri, T, p, allowEq) ==
  \/ T.br = 0
  \/ T.l.br = 0
  \/ /\ (T.br < p \/ (T.br = p /\ allowEq))
     /\ LeftSpineOK(G, ri, T.l, p, allowEq)

ConsistentCand(G, F, ri, T) ==
  \/ T.br = 0
  \/ LET ra == RightAssoc(G, F, ri, T.br) IN
     /\ T.l.br # 0 => (RightSpineOK(G, ri, T.l, T.br, ~ra) /\ ConsistentCand(G, F, ri, T.l))
     /\ T.r.br # 0 => (LeftSpineOK(G, ri, T.r, T.br, ra) /\ ConsistentCand(G, F, ri, T.r))
     /\ \A k \in DOMAIN T.m : ConsistentCand(G, F, ri, T.m[k])

\* all trees the statement admits for the whole input when the start rule is `s: e` with a
\* Pratt rule e; otherwise the single tree of DT (nested Pratt references resolved inside Items)
\* the whole tree for entry point en: the start rule is the root itself; a part is wrapped
\* in a root of kind "part"
DT(G, u, en) ==
  LET E  == Ends(G, u)
      nm == IF en = 0 THEN G.start ELSE G.parts[en].name
      ri == RuleByName(G, nm)
      b  == G.rules[ri].body
      its == IF b = 0 THEN <<>> ELSE Items(G, u, E, b, 0, Len(u))
  IN IF en = 0
     THEN LET res == ApplyOps(G, ri, its, 1, <<>>, [x \in {} |-> 0], [kind |-> nm, elide |-> FALSE])
          IN <<"r", res.kind, res.out>>
     ELSE <<"r", "part", RuleNode(G, ri, its)>>

DTSet(G, u, en) ==
  LET E  == Ends(G, u)
      b  == RootNode(G, en)
  IN IF en = 0 /\ b # 0 /\ K(G, b) = "ref" /\ IsPrattRule(G, RuleByName(G, G.nodes[b].r))
     THEN LET ri == RuleByName(G, G.nodes[b].r)
              F  == First(G)
          IN { <<"r", G.start, RuleNode(G, ri, t.its)>> :
                 t \in {t \in PrattTrees(G, u, E, ri, 0, Len(u)) : ConsistentCand(G, F, ri, t)} }
     ELSE {DT(G, u, en)}

RECURSIVE ActsOf(_), ActsOfSeq(_, _), NoActs(_), NoActsSeq(_, _)
ActsOf(t) == IF t[1] = "@act" THEN <<t[3] \o "_" \o t[2]>> ELSE IF t[1] = "t" THEN <<>> ELSE ActsOfSeq(t[3], 1)
ActsOfSeq(cs, i) == IF i > Len(cs) THEN <<>> ELSE ActsOf(cs[i]) \o ActsOfSeq(cs, i + 1)
NoActs(t) == IF t[1] = "t" THEN t ELSE <<"r", t[2], NoActsSeq(t[3], 1)>>
NoActsSeq(cs, i) ==
  IF i > Len(cs) THEN <<>>
  ELSE IF cs[i][1] = "@act" THEN NoActsSeq(cs, i + 1)
  ELSE <<NoActs(cs[i])>> \o NoActsSeq(cs, i + 1)

=============================================================================
