------------------------------- MODULE MC_Order -------------------------------
(* C15 judge: each record holds two canonical views (a = reference, b = variant) of the same
   grammar: analysis sets keyed by rule#index, diagnostics as a sorted multiset, rule
   attributes, generated-code digest, and the recorded behaviour of the generated parsers.
   The views must be equal field by field. *)
EXTENDS Naturals, Sequences, TLC, Json, IOUtils
Recs == ndJsonDeserialize(IOEnv.RFILE)
VARIABLE i
Init == i \in 1..Len(Recs)
Next == UNCHANGED i
Say(why) == PrintT("V|" \o ToJson([i |-> i, why |-> why]))
JudgeC15 ==
  LET r == Recs[i] IN
  /\ (r.a.sets = r.b.sets) \/ Say("analysis_sets")
  /\ (r.a.diags = r.b.diags) \/ Say("diagnostics")
  /\ (r.a.rules = r.b.rules) \/ Say("rule_attributes")
  /\ (r.a.code = r.b.code) \/ Say("generated_code")
  /\ (r.a.stderr = r.b.stderr) \/ Say("rendered_diagnostics")
  /\ (r.a.runs = r.b.runs) \/ Say("parser_behaviour")
=============================================================================
