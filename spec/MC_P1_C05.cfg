INIT Init
NEXT Next
INVARIANT JudgeElision
CHECK_DEADLOCK FALSE
