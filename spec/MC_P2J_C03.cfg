INIT Init
NEXT Next
INVARIANT JudgeC03
CHECK_DEADLOCK FALSE
