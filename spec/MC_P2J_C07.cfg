INIT Init
NEXT Next
INVARIANT JudgeC07
CHECK_DEADLOCK FALSE
