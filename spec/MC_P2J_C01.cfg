INIT Init
NEXT Next
INVARIANT JudgeC01
CHECK_DEADLOCK FALSE
