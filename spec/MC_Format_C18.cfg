INIT JudgeInit
NEXT JudgeNext
INVARIANT JudgeC18
CHECK_DEADLOCK FALSE
