INIT GenInit
NEXT GenNext
INVARIANT Emit
CHECK_DEADLOCK FALSE
