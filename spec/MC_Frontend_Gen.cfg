INIT GenInit
NEXT GenNext
INVARIANT GenEmit
CHECK_DEADLOCK FALSE
