INIT Init
NEXT Next
INVARIANT JudgeC08
CHECK_DEADLOCK FALSE
