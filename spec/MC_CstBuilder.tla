---------------------------- MODULE MC_CstBuilder ----------------------------
EXTENDS CstBuilder, Json
\* every explored history with the expected vector, for replay into the real CstData
Emit == PrintT("H|" \o ToJson([ops |-> ops, nodes |-> d.nodes, tc |-> d.tc, nsl |-> d.nsl, ok |-> d.status = "run",
                                    tree |-> CompletedTree]))
=============================================================================
