INIT Init
NEXT Next
INVARIANT JudgeC09
INVARIANT JudgeReduced
CHECK_DEADLOCK FALSE
