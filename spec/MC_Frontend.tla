---------------------------- MODULE MC_Frontend ----------------------------
(***************************************************************************)
(* Pipeline P4 (C12, C13).  Four uses of one module, selected by the cfg:  *)
(*  MC_Frontend_Gen.cfg  GENERATOR: the state graph is the prefix tree of  *)
(*        all sequences of at most K lexical items, so TLC enumerates      *)
(*        every sequence exactly once and prints it as "SEQ|[..]"          *)
(*  MC_Frontend_RT.cfg   THEOREM: one state per regex tree of AstGen; the  *)
(*        invariant is the Print/Parse round trip; normal-form trees are   *)
(*        printed as "TREE|{..}" and become C13 inputs                     *)
(*  MC_Frontend_C12.cfg / _C13.cfg  JUDGES: one state per record of what   *)
(*        the real front end did (ndjson file IOEnv.RFILE).  Failures are  *)
(*        printed as "V|{..}" (model drift as "D|{..}"); the invariants    *)
(*        stay TRUE so that one run reports every failing record.          *)
(***************************************************************************)
EXTENDS Frontend, Json, IOUtils

Env(n, d) == IF n \in DOMAIN IOEnv THEN IOEnv[n] ELSE d
K      == atoi(Env("K", "3"))
FIRST  == atoi(Env("FIRST", "0"))     \* 0: all sequences; i: only those that start with item i
TREE_N == atoi(Env("TREE_N", "5"))
TREE_D == atoi(Env("TREE_D", "3"))
Recs   == ndJsonDeserialize(IOEnv.RFILE)

ASSUME ItemsWellFormed

VARIABLE st

\* ---- generator of the exhaustive C12 domain ------------------------------------------------
GenInit == st = IF FIRST = 0 THEN <<>> ELSE <<FIRST>>
GenNext == Len(st) < K /\ \E i \in 1..NItems : st' = Append(st, i)
GenEmit == /\ st # <<>> \/ PrintT("ITEMS|" \o ToJson(LexItems))
           /\ PrintT("SEQ|" \o ToJson([s |-> st, p |-> <<Predicted(st, "sp"), Predicted(st, "nl")>>]))

\* ---- round-trip theorem ---------------------------------------------------------------------
TreeLeaves == {"A", "B"}
RtInit == st \in AstGen(TreeLeaves, TREE_N, TREE_D)
RtNext == UNCHANGED st
RtTheorem == RoundTrip(st)
RtEmit == WF(st) => PrintT("TREE|" \o ToJson([t |-> st, items |-> Flat(st)]))

\* ---- judges ---------------------------------------------------------------------------------
JInit == st \in 1..Len(Recs)
JNext == FALSE /\ UNCHANGED st     \* every record is an initial state; there is nothing to explore
Say(why)   == PrintT("V|" \o ToJson([i |-> Recs[st].i, why |-> why]))
Drift(why) == PrintT("D|" \o ToJson([i |-> Recs[st].i, why |-> why]))

JudgeC12 ==
  LET r == Recs[st] IN
  /\ NoPanic(r) \/ Say("panic")
  /\ SpansValid(r) \/ Say("span")
  /\ Tiled(r) \/ Say("tiling")
  /\ \/ r.fam # "seq" \/ ~r.lexed
     \/ LexesAsIntended(r, r.seq, r.sep)
     \/ Drift("lex")

JudgeC13 ==
  LET r == Recs[st] IN
  /\ NoSyntaxError(r) \/ Say("syntax_error")
  /\ \A j \in DOMAIN StructFields :
        SameField(r, StructFields[j]) \/ Say("structure:" \o StructFields[j])
  /\ \/ Len(r.rd.rules) # Len(r.bodies)      \* already reported as structure:rules
     \/ \A j \in DOMAIN r.bodies : ReadsAsParsed(r, j) \/ Say("structure:nesting")
=============================================================================
