\* as built (pinned tree): graph output is not gated on check mode (finding #6); TLC must report PCheckWritesNothing
CONSTANTS
  AsBuilt = {"GraphInCheck"}
  MaxSteps = 2
INIT Init
NEXT MCNext
VIEW MCView
INVARIANTS
  TypeOK
  FreshOnlyIfNoError
  SkeletonsWithGenerated
  ReadOnlyStaysEmpty
PROPERTIES
  PCheckWritesNothing
  PGeneratedOnlyIfNoError
  PSkeletonsOnlyIfNeither
  PUserFilesUntouched
  PExitIffNoError
  POnlyPromisedFiles
  PFormatExitRule
  PFrame
CHECK_DEADLOCK FALSE
