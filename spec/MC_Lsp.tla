------------------------------- MODULE MC_Lsp -------------------------------
(***************************************************************************)
(* Model-checking instance of Lsp.tla (property C20).                      *)
(*   MC_Lsp.cfg          intended design (AsBuilt = {}): all properties    *)
(*                       must hold; every history of length H is printed   *)
(*                       as a "HIST|<json>" line for replay into the code. *)
(*   MC_Lsp_AsBuilt.cfg  AsBuilt = {"PositionUnwrap"}: TLC returns the     *)
(*                       counterexample open; request past the line end;   *)
(*                       any further message => ~alive  (finding #7, fixed  *)
(*                       in /repo by 5761f44; kept as documentation: the   *)
(*                       model still yields it, the code no longer does).  *)
(*   MC_Lsp_Race.cfg     AsBuilt = {"AnalysisPanic"}: the race guarded by  *)
(*                       assert!(!handle.is_finished()).                   *)
(*   MC_Lsp_Live.cfg     small instance with the liveness property.        *)
(* Abstraction: "hover" stands for the four positional request kinds,      *)
(* "formatting" for the position-free one; position class "ok" for every   *)
(* position inside a line, "pasteol" for every class the as-built          *)
(* conversion does not clamp.  The harness expands them when replaying.    *)
(***************************************************************************)
EXTENDS Lsp, Json, IOUtils

MC_Docs       == {1, 2}
MC_Docs1      == {1}
MC_Texts2     == {1, 2}
MC_Texts3     == {1, 2, 3}
MC_ReqKinds   == {"hover", "formatting"}
MC_PosClasses == {"ok", "pasteol"}
MC_Unwrap     == {"pasteol", "pastlastline", "midsurrogate"}
MC_None       == {}
MC_PositionUnwrap == {"PositionUnwrap"}
MC_AnalysisPanic  == {"AnalysisPanic"}
MC_PanicTexts == {2}

\* every complete history (length H, fully handled) is printed once for the replay
EmitHist ==
  (Len(hist) = H /\ pc = "idle" /\ inbox = <<>>) => PrintT("HIST|" \o ToJson(hist))

\* as-built runs: the history that killed the server, printed just before ServerAlive fails
EmitDeath ==
  (~alive) => PrintT("DEATH|" \o ToJson([hist |-> hist, answers |-> answers]))

=============================================================================
