\* intended design: no deviation switched on; every clause of C19 must hold
CONSTANTS
  AsBuilt = {}
  MaxSteps = 2
INIT Init
NEXT MCNext
VIEW MCView
INVARIANTS
  TypeOK
  FreshOnlyIfNoError
  SkeletonsWithGenerated
  ReadOnlyStaysEmpty
  HistoryOK
PROPERTIES
  PCheckWritesNothing
  PGeneratedOnlyIfNoError
  PSkeletonsOnlyIfNeither
  PUserFilesUntouched
  PExitIffNoError
  POnlyPromisedFiles
  PFormatExitRule
  PFrame
CHECK_DEADLOCK FALSE
