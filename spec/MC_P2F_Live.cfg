SPECIFICATION Spec
PROPERTY Termination
INVARIANT NoPanic
CHECK_DEADLOCK FALSE
