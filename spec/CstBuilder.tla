------------------------------ MODULE CstBuilder ------------------------------
(***************************************************************************)
(* Component A: the tree builder (CstData of src/skeleton/generated.rs).   *)
(* The implementation side (nodes, tc, nsl) is the transcription used by   *)
(* ParserMachine.tla; next to it a GHOST reference tree is maintained with *)
(* the obvious meaning of every operation, and TLC checks in every state   *)
(* of every protocol-conforming history that the flat vector IS the ghost  *)
(* tree (refinement), that leaves carry the token indices in order and     *)
(* that no closed node other than the root starts or ends with a skipped   *)
(* token.  The usage protocol of generated code is the enabling condition  *)
(* of the actions (DESIGN appendix D.1).                                   *)
(*                                                                         *)
(* Ghost: a stack of frames, one per open node, each frame holding the     *)
(* list of finished items below that node: <<"t", token, index, skip>> or  *)
(* <<"r", kind, items>>.  Closing a node hoists the skipped leaves at the  *)
(* END of its item list to the parent.                                     *)
(***************************************************************************)
EXTENDS Naturals, Sequences, FiniteSets, TLC

CONSTANTS MaxOps, MaxToks, AllowBelowSnapshot

DummyG == [skip |-> <<"W">>, nodes |-> <<>>, rules |-> <<>>, parts |-> <<>>, start |-> "", delkinds |-> <<>>]
M == INSTANCE ParserMachine WITH G <- DummyG, AsBuilt <- {}

VARIABLES d,        \* implementation state: [nodes, tc, nsl, status]
          ghost,    \* stack of frames [items, mark]
          marks,    \* live closed marks of the innermost frame: set of [v (vector index), at (item index)]
          saved,    \* <<>> or <<snapshot>>
          ops,      \* history (observation)
          lastTok   \* the previous operation pushed a token (skipped successors may follow)
vars == <<d, ghost, marks, saved, ops, lastTok>>

Kinds == {"x", "y"}

Frame(mark) == [items |-> <<>>, mark |-> mark]

Init ==
  /\ d = M!DataOpen([nodes |-> <<>>, tc |-> 0, nsl |-> 0, status |-> "run"])
  /\ ghost = <<Frame(0)>>
  /\ marks = {}
  /\ saved = <<>>
  /\ ops = << <<"open">> >>
  /\ lastTok = TRUE          \* init_skip: skipped tokens may directly follow the root's open

Top == ghost[Len(ghost)]
AddItem(g, it) == [g EXCEPT ![Len(g)].items = Append(@, it)]
Bounded == Len(ops) < MaxOps /\ d.status = "run"

Tok(skip) ==
  /\ Bounded /\ d.tc < MaxToks
  /\ skip => lastTok
  /\ LET t == IF skip THEN "W" ELSE "A" IN
     /\ d' = M!DataAdvance(d, t, skip)
     /\ ghost' = AddItem(ghost, <<"t", t, d.tc, skip>>)
     /\ ops' = Append(ops, <<"tok", t, skip>>)
  /\ lastTok' = TRUE
  /\ UNCHANGED <<marks, saved>>

Open ==
  /\ Bounded
  /\ d' = M!DataOpen(d)
  /\ ghost' = Append(ghost, Frame(Len(d.nodes)))
  /\ marks' = {}
  /\ ops' = Append(ops, <<"open">>)
  /\ lastTok' = FALSE
  /\ UNCHANGED saved

RECURSIVE TrailingSkips(_)
TrailingSkips(its) ==
  IF its = <<>> THEN 0
  ELSE LET it == its[Len(its)] IN
       IF it[1] = "t" /\ it[4] THEN 1 + TrailingSkips(SubSeq(its, 1, Len(its) - 1)) ELSE 0

Close(kind) ==
  /\ Bounded /\ Len(ghost) >= 2
  \* inside an attempt only nodes opened inside it are closed (the enclosing rule closes its own
  \* node after the choice)
  /\ saved # <<>> => Len(ghost) > Len(saved[1].ghost)
  /\ LET f == Top
         k == TrailingSkips(f.items)
         keep == SubSeq(f.items, 1, Len(f.items) - k)
         hoist == SubSeq(f.items, Len(f.items) - k + 1, Len(f.items))
         below == SubSeq(ghost, 1, Len(ghost) - 1)
     IN /\ d' = M!DataClose(d, f.mark, kind)
        /\ ghost' = [below EXCEPT ![Len(below)].items = (@ \o << <<"r", kind, keep>> >>) \o hoist]
        /\ ops' = Append(ops, <<"close", kind>>)
  /\ marks' = {}
  /\ lastTok' = FALSE
  /\ UNCHANGED saved

Mark ==
  /\ Bounded
  /\ ~(\E m \in marks : m.v = Len(d.nodes))
  /\ marks' = marks \cup {[v |-> Len(d.nodes), at |-> Len(Top.items)]}
  /\ ops' = Append(ops, <<"mark", Len(d.nodes)>>)
  /\ lastTok' = FALSE
  /\ UNCHANGED <<d, ghost, saved>>

\* wrap the items since the mark: conditional elision, node creation, Pratt wrapper
OpenBefore ==
  /\ Bounded
  /\ \E m \in marks :
       /\ d' = M!DataOpenBefore(d, m.v)
       /\ LET f == Top
              rest == SubSeq(f.items, m.at + 1, Len(f.items))
          IN ghost' = Append([ghost EXCEPT ![Len(ghost)].items = SubSeq(@, 1, m.at)],
                             [items |-> rest, mark |-> m.v])
       /\ ops' = Append(ops, <<"openbefore", m.v>>)
  /\ marks' = {}
  /\ lastTok' = FALSE
  /\ UNCHANGED saved

Save ==
  /\ Bounded /\ saved = <<>>
  /\ saved' = << [d |-> d, ghost |-> ghost, marks |-> marks] >>
  /\ ops' = Append(ops, <<"save">>)
  /\ lastTok' = FALSE
  \* protocol: a mark taken before the snapshot is not used inside the attempt
  /\ marks' = IF AllowBelowSnapshot THEN marks ELSE {}
  /\ UNCHANGED <<d, ghost>>

Restore ==
  /\ Bounded /\ saved # <<>>
  /\ Len(d.nodes) >= Len(saved[1].d.nodes)
  /\ d' = [d EXCEPT !.nodes = SubSeq(@, 1, Len(saved[1].d.nodes)), !.tc = saved[1].d.tc, !.nsl = saved[1].d.nsl]
  /\ ghost' = saved[1].ghost
  /\ marks' = saved[1].marks
  /\ saved' = <<>>
  /\ ops' = Append(ops, <<"restore">>)
  /\ lastTok' = FALSE

Next == Tok(TRUE) \/ Tok(FALSE) \/ Open \/ Mark \/ OpenBefore \/ Save \/ Restore \/ \E k \in Kinds : Close(k)

(***************************************************************************)
(* Refinement: the vector is the ghost tree.                               *)
(***************************************************************************)
RECURSIVE FlatItem(_), FlatItems(_, _)
FlatItem(it) ==
  IF it[1] = "t" THEN << <<"t", it[2], it[3]>> >>
  ELSE LET ch == FlatItems(it[3], 1) IN << <<"r", it[2], Len(ch)>> >> \o ch
FlatItems(its, i) == IF i > Len(its) THEN <<>> ELSE FlatItem(its[i]) \o FlatItems(its, i + 1)

RECURSIVE FlatGhost(_, _)
FlatGhost(g, k) ==
  IF k > Len(g) THEN <<>>
  ELSE (<< <<"r", "error", 0>> >> \o FlatItems(g[k].items, 1)) \o FlatGhost(g, k + 1)

\* insertion below an active snapshot is outside the protocol (it is finding F03 of the parsers)
Refines == d.status = "run" => d.nodes = FlatGhost(ghost, 1)

NoPanic == d.status = "run"

(***************************************************************************)
(* The tree a history stands for once every open node is closed (kind "x") *)
(* and the root is closed with close_root: what a user of the public       *)
(* children()/get() API sees.  Leaves are <<"t", token, index>>.           *)
(***************************************************************************)
RECURSIVE PublicItems(_, _)
PublicItem(it) == IF it[1] = "t" THEN <<"t", it[2], it[3]>> ELSE <<"r", it[2], PublicItems(it[3], 1)>>
PublicItems(its, i) == IF i > Len(its) THEN <<>> ELSE <<PublicItem(its[i])>> \o PublicItems(its, i + 1)

RECURSIVE CloseAll(_)
CloseAll(g) ==
  IF Len(g) = 1 THEN g[1].items
  ELSE LET f == g[Len(g)]
           k == TrailingSkips(f.items)
           keep == SubSeq(f.items, 1, Len(f.items) - k)
           hoist == SubSeq(f.items, Len(f.items) - k + 1, Len(f.items))
           below == SubSeq(g, 1, Len(g) - 1)
       IN CloseAll([below EXCEPT ![Len(below)].items = (@ \o << <<"r", "x", keep>> >>) \o hoist])
CompletedTree == <<"r", "s", PublicItems(CloseAll(ghost), 1)>>

RECURSIVE LeafIdx(_, _, _)
LeafIdx(nodes, k, next) ==
  IF k > Len(nodes) THEN next
  ELSE IF nodes[k][1] = "t" THEN (IF nodes[k][3] = next THEN LeafIdx(nodes, k + 1, next + 1) ELSE 0 - 1)
  ELSE LeafIdx(nodes, k + 1, next)
LeavesInOrder == LeafIdx(d.nodes, 1, 0) = d.tc

RECURSIVE TriviaOKItems(_, _)
TriviaOKItem(it) ==
  it[1] = "t" \/
  /\ it[3] # <<>> => /\ ~(it[3][1][1] = "t" /\ it[3][1][4])
                     /\ ~(it[3][Len(it[3])][1] = "t" /\ it[3][Len(it[3])][4])
  /\ TriviaOKItems(it[3], 1)
TriviaOKItems(its, i) == i > Len(its) \/ (TriviaOKItem(its[i]) /\ TriviaOKItems(its, i + 1))
\* closed nodes never END with a skipped token; they may start with one only if the protocol
\* opened them in front of it, which generated code never does (open follows a non-skip advance
\* or another open) - the history generator can, so only the trailing half is an invariant here
RECURSIVE NoTrailingSkip(_, _)
NoTrailingSkipItem(it) ==
  it[1] = "t" \/ ((it[3] # <<>> => ~(it[3][Len(it[3])][1] = "t" /\ it[3][Len(it[3])][4])) /\ NoTrailingSkip(it[3], 1))
NoTrailingSkip(its, i) == i > Len(its) \/ (NoTrailingSkipItem(its[i]) /\ NoTrailingSkip(its, i + 1))
ClosedNodesTrimmed == \A k \in DOMAIN ghost : NoTrailingSkip(ghost[k].items, 1)

=============================================================================
