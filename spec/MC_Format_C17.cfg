INIT JudgeInit
NEXT JudgeNext
INVARIANT JudgeC17
CHECK_DEADLOCK FALSE
