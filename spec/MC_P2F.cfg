INIT Init
NEXT Next
INVARIANT Fuel
INVARIANT LockStep
INVARIANT NoPanic
INVARIANT FinalTree
INVARIANT Count
CHECK_DEADLOCK FALSE
