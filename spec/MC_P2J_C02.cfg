INIT Init
NEXT Next
INVARIANT JudgeC02
CHECK_DEADLOCK FALSE
