INIT Init
NEXT Next
INVARIANT JudgeC10
INVARIANT JudgeReduced
CHECK_DEADLOCK FALSE
