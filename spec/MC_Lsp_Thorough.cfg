SPECIFICATION Spec
CONSTANTS
  Docs <- MC_Docs
  Texts <- MC_Texts3
  ReqKinds <- MC_ReqKinds
  PosClasses <- MC_PosClasses
  UnwrapClasses <- MC_Unwrap
  PanicTexts <- MC_None
  AsBuilt <- MC_None
  H = 5
  MaxInFlight = 2
INVARIANT TypeOK
INVARIANT ServerAlive
INVARIANT EveryRequestAnswered
INVARIANT Fresh
INVARIANT Joined
INVARIANT EmitHist
CHECK_DEADLOCK FALSE
