\* judge of record for the transitions recorded from the real binary (contract = intended design)
CONSTANTS
  AsBuilt = {}
  MaxSteps = 2
INIT TInit
NEXT TNext
INVARIANTS
  Judge
  Conform
CHECK_DEADLOCK FALSE
