SPECIFICATION Spec
CONSTANTS
  Docs <- MC_Docs
  Texts <- MC_Texts2
  ReqKinds <- MC_ReqKinds
  PosClasses <- MC_PosClasses
  UnwrapClasses <- MC_Unwrap
  PanicTexts <- MC_None
  AsBuilt <- MC_PositionUnwrap
  H = 4
  MaxInFlight = 2
INVARIANT TypeOK
INVARIANT EmitDeath
INVARIANT ServerAlive
CHECK_DEADLOCK FALSE
