--------------------------------- MODULE Lsp ---------------------------------
(***************************************************************************)
(* Machine spec of lelwel's language server (property C20), shaped like    *)
(* the code, not an idealisation:                                          *)
(*                                                                         *)
(*   src/bin/lelwel-ls.rs  main_loop: ONE thread, handles one client       *)
(*       message at a time.  didOpen/didChange = invalidate; analyze;      *)
(*       get_diagnostics -> publishDiagnostics.  didClose = invalidate.    *)
(*       Five request kinds = one Cache method each.                       *)
(*   src/ide/mod.rs  Cache: one analyzer THREAD per document with an mpsc  *)
(*       request channel and a reply channel.                              *)
(*         invalidate   = remove from the map; req_tx.send(Cancel).unwrap();*)
(*                        handle.join().unwrap()                           *)
(*         analyze      = spawn + insert                                   *)
(*         every getter = assert!(!handle.is_finished());                  *)
(*                        req_tx.send(R).unwrap();                         *)
(*                        noti_rx.recv()  with  Err => default reply       *)
(*       analyze(): parse + sema (initial analysis), then                  *)
(*         while let Ok(r) = req.recv() { handle r; noti.send(..) }        *)
(*       where every positional request starts with                        *)
(*         compat::position_to_offset(..).unwrap()                         *)
(*                                                                         *)
(* The main thread and the analyzer threads take separate steps, so TLC    *)
(* explores every interleaving, in particular the window between the       *)
(* `is_finished` assertion and the `send`.                                 *)
(*                                                                         *)
(* Named as-built deviations (constant AsBuilt, a subset of                *)
(* {"PositionUnwrap", "AnalysisPanic"}); the intended design is AsBuilt={}:*)
(*   "PositionUnwrap": a request whose position class is in UnwrapClasses  *)
(*       (character past the line end, line past the last line, middle of  *)
(*       a surrogate pair) makes the analyzer thread panic instead of      *)
(*       being clamped.                                                    *)
(*   "AnalysisPanic": the initial analysis of a text in PanicTexts panics. *)
(*                                                                         *)
(* Status: "PositionUnwrap" described the tree up to /repo commit 5761f44  *)
(* ("clamp request positions that lie outside of the document").  Since    *)
(* then position_to_offset clamps, and the real code has to satisfy the    *)
(* INTENDED machine (AsBuilt = {}) for every position class, the           *)
(* UnwrapClasses included; trace validation accepts recordings with such   *)
(* positions under AsBuilt = {} only if they were answered from the latest *)
(* text.  MC_Lsp_AsBuilt.cfg is kept as the documentation of the old       *)
(* defect (and the harness still recognises its behaviour should it come   *)
(* back).                                                                  *)
(***************************************************************************)
EXTENDS Naturals, Sequences, FiniteSets, TLC

CONSTANTS
  Docs,           \* document ids (uris)
  Texts,          \* text ids (positive naturals)
  ReqKinds,       \* subset of {"hover","definition","references","completion","formatting"}
  PosClasses,     \* position classes a positional request may carry
  UnwrapClasses,  \* classes on which position_to_offset(..).unwrap() fails as built
  PanicTexts,     \* texts whose initial analysis panics under "AnalysisPanic"
  AsBuilt,        \* enabled named deviations
  H,              \* bound on the number of client messages of a history
  MaxInFlight     \* 1: the client waits for the loop to be idle; >1: burst delivery (queued)

VARIABLES
  an,       \* [Docs -> analyzer record]: the Cache's map (NoAnalyzer = absent)
  old,      \* the analyzer removed from the map by a running `invalidate` (local variable)
  alive,    \* the server process
  pc,       \* where the main thread is inside the handler of `cur`
  cur,      \* the client message being handled
  inbox,    \* messages written by the client, not yet taken by the main loop
  docs,     \* what the client believes: [Docs -> [open, text]]
  latest,   \* ghost: text of the latest open/change TAKEN by the main loop, per document
  answers,  \* what the client received, one record per handled message
  hist      \* the client history so far (sequence of messages)

vars == <<an, old, alive, pc, cur, inbox, docs, latest, answers, hist>>

Positional == {"hover", "definition", "references", "completion"}

NoReq  == [kind |-> "none", pos |-> ""]
Cancel == [kind |-> "cancel", pos |-> ""]
NoAnalyzer == [th |-> "none", req |-> <<>>, rep |-> <<>>, text |-> 0, cr |-> NoReq]
NoMsg  == [op |-> "none", doc |-> 0, text |-> 0, kind |-> "", pos |-> ""]

(***************************************************************************)
(* A panicking thread does not vanish atomically.  `analyze(uri, source,   *)
(* req, noti)` unwinds by dropping its locals and then its parameters in   *)
(* reverse order: first `noti` (the reply sender: the main thread's        *)
(* blocking recv() wakes up with Err), then `req` (the request receiver:   *)
(* from now on send() fails), and only later the thread counts as          *)
(* finished.  Hence three states: "unwind_rep", "unwind_req", "panicked".  *)
(* In "unwind_rep" the main thread passes the is_finished assertion AND    *)
(* the send, and gets one more default reply (observed on the real code).  *)
(***************************************************************************)
Finished     == {"exited", "panicked"}                 \* JoinHandle::is_finished()
ReceiverGone == {"unwind_req"} \cup Finished            \* req_tx.send(..) is Err
SenderGone   == {"unwind_rep"} \cup ReceiverGone        \* noti_rx.recv() is Err once drained

\* messages, uniform record shape (JSON friendly)
OpenMsg(d, t)    == [op |-> "open",   doc |-> d, text |-> t, kind |-> "", pos |-> ""]
ChangeMsg(d, t)  == [op |-> "change", doc |-> d, text |-> t, kind |-> "", pos |-> ""]
CloseMsg(d)      == [op |-> "close",  doc |-> d, text |-> 0, kind |-> "", pos |-> ""]
ReqMsg(d, k, p)  == [op |-> "req",    doc |-> d, text |-> 0, kind |-> k,  pos |-> p]

\* protocol-legal next message given the client's belief (the quantifier of C20)
IsLegal(m) ==
  /\ m.doc \in Docs
  /\ CASE m.op = "open"   -> ~docs[m.doc].open /\ m = OpenMsg(m.doc, m.text) /\ m.text \in Texts
       [] m.op = "change" -> docs[m.doc].open /\ m = ChangeMsg(m.doc, m.text) /\ m.text \in Texts
       [] m.op = "close"  -> docs[m.doc].open /\ m = CloseMsg(m.doc)
       [] m.op = "req"    -> /\ docs[m.doc].open
                             /\ m = ReqMsg(m.doc, m.kind, m.pos)
                             /\ m.kind \in ReqKinds
                             /\ IF m.kind \in Positional THEN m.pos \in PosClasses ELSE m.pos = ""
       [] OTHER           -> FALSE

MsgUniverse ==
  UNION { {OpenMsg(d, t) : t \in Texts} \cup {ChangeMsg(d, t) : t \in Texts} \cup {CloseMsg(d)}
          \cup {ReqMsg(d, k, p) : k \in ReqKinds \cap Positional, p \in PosClasses}
          \cup {ReqMsg(d, k, "") : k \in ReqKinds \ Positional}
        : d \in Docs }

LegalMsgs == {m \in MsgUniverse : IsLegal(m)}

(***************************************************************************)
(* The constant oracles of the named deviations.                           *)
(***************************************************************************)
PanicsOnRequest(text, r) ==
  /\ "PositionUnwrap" \in AsBuilt
  /\ r.kind \in Positional
  /\ r.pos \in UnwrapClasses

PanicsOnAnalyse(text) ==
  /\ "AnalysisPanic" \in AsBuilt
  /\ text \in PanicTexts

(***************************************************************************)
(* Analyzer thread: each operator maps an analyzer record to the set of    *)
(* its successors under one named thread action (empty = not enabled).     *)
(***************************************************************************)
FinishAnalysis(a) ==          \* parse + sema done, enter `while let Ok(req) = req.recv()`
  IF a.th = "analysing" /\ ~PanicsOnAnalyse(a.text)
    THEN {[a EXCEPT !.th = "idle"]} ELSE {}

PanicInAnalysis(a) ==         \* as-built: "AnalysisPanic"; unwinding drops `noti` first
  IF a.th = "analysing" /\ PanicsOnAnalyse(a.text)
    THEN {[a EXCEPT !.th = "unwind_rep"]} ELSE {}

TakeRequest(a) ==             \* req.recv() returns
  IF a.th = "idle" /\ a.req # <<>>
    THEN {[a EXCEPT !.th = "handling", !.cr = Head(a.req), !.req = Tail(a.req)]} ELSE {}

ExitOnCancel(a) ==            \* Request::Cancel => return
  IF a.th = "handling" /\ a.cr.kind = "cancel"
    THEN {[a EXCEPT !.th = "exited", !.cr = NoReq, !.req = <<>>]} ELSE {}

Reply(a) ==                   \* compute from THIS thread's text; noti.send(..)
  IF a.th = "handling" /\ a.cr.kind # "cancel" /\ ~PanicsOnRequest(a.text, a.cr)
    THEN {[a EXCEPT !.th = "idle", !.cr = NoReq,
                    !.rep = Append(@, [kind |-> a.cr.kind, tag |-> a.text])]} ELSE {}

Panic(a) ==                   \* as-built: "PositionUnwrap" — position_to_offset(..).unwrap()
  IF a.th = "handling" /\ a.cr.kind # "cancel" /\ PanicsOnRequest(a.text, a.cr)
    THEN {[a EXCEPT !.th = "unwind_rep", !.cr = NoReq]} ELSE {}

DropReceiver(a) ==            \* unwinding goes on: `req` is dropped, queued requests are lost
  IF a.th = "unwind_rep" THEN {[a EXCEPT !.th = "unwind_req", !.req = <<>>]} ELSE {}

ThreadEnd(a) ==               \* the panicked thread is finished (is_finished(), join() = Err)
  IF a.th = "unwind_req" THEN {[a EXCEPT !.th = "panicked"]} ELSE {}

ThreadSucc(a) == FinishAnalysis(a) \cup PanicInAnalysis(a) \cup TakeRequest(a)
                 \cup ExitOnCancel(a) \cup Reply(a) \cup Panic(a)
                 \cup DropReceiver(a) \cup ThreadEnd(a)

MainVars == <<alive, pc, cur, inbox, docs, latest, answers, hist>>

ThreadStep ==
  \/ \E d \in Docs : \E b \in ThreadSucc(an[d]) :
       /\ an' = [an EXCEPT ![d] = b]
       /\ UNCHANGED <<old, MainVars>>
  \/ \E b \in ThreadSucc(old) :
       /\ old' = b
       /\ UNCHANGED <<an, MainVars>>

(***************************************************************************)
(* Client.                                                                 *)
(***************************************************************************)
InFlight == Len(inbox) + (IF pc = "idle" THEN 0 ELSE 1)

ApplyBelief(m) ==
  CASE m.op \in {"open", "change"} -> [docs EXCEPT ![m.doc] = [open |-> TRUE, text |-> m.text]]
    [] m.op = "close"              -> [docs EXCEPT ![m.doc] = [open |-> FALSE, text |-> 0]]
    [] OTHER                       -> docs

Send(m) ==
  /\ alive
  /\ Len(hist) < H
  /\ InFlight < MaxInFlight
  /\ IsLegal(m)
  /\ inbox' = Append(inbox, m)
  /\ hist' = Append(hist, m)
  /\ docs' = ApplyBelief(m)
  /\ UNCHANGED <<an, old, alive, pc, cur, latest, answers>>

ClientStep == \E m \in LegalMsgs : Send(m)

(***************************************************************************)
(* Main thread (bin/lelwel-ls.rs main_loop + the Cache methods it calls).  *)
(***************************************************************************)
Die ==                        \* unwrap / assert fails on the main thread: the process exits
  /\ alive' = FALSE
  /\ pc' = "dead"

AfterInvalidate == IF cur.op = "close" THEN "closed" ELSE "spawn"

TakeMsg ==                    \* `for msg in &connection.receiver`
  /\ alive /\ pc = "idle" /\ inbox # <<>>
  /\ cur' = Head(inbox)
  /\ inbox' = Tail(inbox)
  /\ pc' = IF Head(inbox).op = "req" THEN "ask_assert" ELSE "inv_remove"
  /\ latest' = IF Head(inbox).op \in {"open", "change"}
                 THEN [latest EXCEPT ![Head(inbox).doc] = Head(inbox).text]
                 ELSE IF Head(inbox).op = "close"
                        THEN [latest EXCEPT ![Head(inbox).doc] = 0] ELSE latest
  /\ UNCHANGED <<an, old, alive, docs, answers, hist>>

InvRemove ==                  \* if let Some(analyzer) = self.analyzers.remove(uri)
  /\ pc = "inv_remove"
  /\ IF an[cur.doc].th = "none"
       THEN /\ pc' = AfterInvalidate
            /\ UNCHANGED <<an, old>>
       ELSE /\ old' = an[cur.doc]
            /\ an' = [an EXCEPT ![cur.doc] = NoAnalyzer]
            /\ pc' = "inv_send"
  /\ UNCHANGED <<alive, cur, inbox, docs, latest, answers, hist>>

InvSend ==                    \* analyzer.req_tx.send(Request::Cancel).unwrap()
  /\ pc = "inv_send"
  /\ IF old.th \in ReceiverGone
       THEN Die /\ UNCHANGED old
       ELSE /\ old' = [old EXCEPT !.req = Append(@, Cancel)]
            /\ pc' = "inv_join"
            /\ UNCHANGED alive
  /\ UNCHANGED <<an, cur, inbox, docs, latest, answers, hist>>

InvJoin ==                    \* analyzer.handle.join().unwrap()   (blocks until finished)
  /\ pc = "inv_join"
  /\ old.th \in Finished
  /\ IF old.th = "panicked"
       THEN Die /\ UNCHANGED old
       ELSE /\ old' = NoAnalyzer
            /\ pc' = AfterInvalidate
            /\ UNCHANGED alive
  /\ UNCHANGED <<an, cur, inbox, docs, latest, answers, hist>>

Spawn ==                      \* Cache::analyze: thread::spawn + insert
  /\ pc = "spawn"
  /\ an' = [an EXCEPT ![cur.doc] =
              [th |-> "analysing", req |-> <<>>, rep |-> <<>>, text |-> cur.text, cr |-> NoReq]]
  /\ pc' = "ask_assert"
  /\ UNCHANGED <<old, alive, cur, inbox, docs, latest, answers, hist>>

AskAssert ==                  \* get_mut(uri).unwrap(); assert!(!analyzer.handle.is_finished())
  /\ pc = "ask_assert"
  /\ IF an[cur.doc].th \in Finished \cup {"none"}
       THEN Die
       ELSE pc' = "ask_send" /\ UNCHANGED alive
  /\ UNCHANGED <<an, old, cur, inbox, docs, latest, answers, hist>>

TheRequest == IF cur.op = "req" THEN [kind |-> cur.kind, pos |-> cur.pos]
                                ELSE [kind |-> "diagnostic", pos |-> ""]

AskSend ==                    \* analyzer.req_tx.send(..).unwrap(): Err iff the receiver is gone
  /\ pc = "ask_send"
  /\ IF an[cur.doc].th \in ReceiverGone
       THEN Die /\ UNCHANGED an
       ELSE /\ an' = [an EXCEPT ![cur.doc].req = Append(@, TheRequest)]
            /\ pc' = "await"
            /\ UNCHANGED alive
  /\ UNCHANGED <<old, cur, inbox, docs, latest, answers, hist>>

Outcome(out, tag) ==
  [n |-> Len(answers) + 1, op |-> cur.op, doc |-> cur.doc, kind |-> TheRequest.kind,
   out |-> out, tag |-> tag, want |-> latest[cur.doc]]

Await ==                      \* noti_rx.recv(): a reply, or Err (=> default) when the sender is gone
  /\ pc = "await"
  /\ LET a == an[cur.doc] IN
       \/ /\ a.rep # <<>>
          /\ an' = [an EXCEPT ![cur.doc].rep = Tail(@)]
          /\ answers' = Append(answers,
                IF Head(a.rep).kind = TheRequest.kind
                  THEN Outcome(IF cur.op = "req" THEN "ans" ELSE "pub", Head(a.rep).tag)
                  ELSE Outcome("default", 0))     \* `if let Ok(Notification::X(..))` mismatch
       \/ /\ a.rep = <<>>
          /\ a.th \in SenderGone
          /\ answers' = Append(answers, Outcome("default", 0))
          /\ UNCHANGED an
  /\ pc' = "idle"
  /\ cur' = NoMsg
  /\ UNCHANGED <<old, alive, inbox, docs, latest, hist>>

Closed ==                     \* didClose returns None: nothing is sent
  /\ pc = "closed"
  /\ answers' = Append(answers, Outcome("closed", 0))
  /\ pc' = "idle"
  /\ cur' = NoMsg
  /\ UNCHANGED <<an, old, alive, inbox, docs, latest, hist>>

MainStep ==
  \/ TakeMsg \/ InvRemove \/ InvSend \/ InvJoin \/ Spawn \/ AskAssert \/ AskSend \/ Await \/ Closed

Init ==
  /\ an = [d \in Docs |-> NoAnalyzer]
  /\ old = NoAnalyzer
  /\ alive = TRUE
  /\ pc = "idle"
  /\ cur = NoMsg
  /\ inbox = <<>>
  /\ docs = [d \in Docs |-> [open |-> FALSE, text |-> 0]]
  /\ latest = [d \in Docs |-> 0]
  /\ answers = <<>>
  /\ hist = <<>>

Next == ClientStep \/ MainStep \/ ThreadStep

Fairness == WF_vars(MainStep) /\ WF_vars(ThreadStep)
Spec == Init /\ [][Next]_vars /\ Fairness

(***************************************************************************)
(* Properties of the intended design.                                      *)
(***************************************************************************)
TypeOK ==
  /\ alive \in BOOLEAN
  /\ pc \in {"idle", "inv_remove", "inv_send", "inv_join", "spawn", "ask_assert", "ask_send",
             "await", "closed", "dead"}
  /\ \A d \in Docs : an[d].th \in {"none", "analysing", "idle", "handling", "exited",
                                     "unwind_rep", "unwind_req", "panicked"}
  /\ Len(hist) <= H

\* the server never crashes
ServerAlive == alive

\* when the loop is back to idle, every message taken so far has its entry in `answers`
EveryRequestAnswered ==
  pc = "idle" => Len(answers) = Len(hist) - Len(inbox)

\* every published / answered value was computed from the text of the latest open/change of that
\* uri taken before the handler started; a default reply (thread gone) is not such a value
Fresh ==
  \A i \in DOMAIN answers :
     answers[i].op # "close" => /\ answers[i].out \in {"pub", "ans"}
                                /\ answers[i].tag = answers[i].want

\* a closed document has no analyzer, an open one exactly one, and no invalidated thread
\* outlives its `invalidate`
Joined ==
  pc = "idle" =>
     /\ old = NoAnalyzer
     /\ \A d \in Docs : (latest[d] = 0) <=> (an[d] = NoAnalyzer)
     /\ \A d \in Docs : an[d] # NoAnalyzer => an[d].text = latest[d] /\ an[d].req = <<>> /\ an[d].rep = <<>>

\* every handled message eventually returns the loop to idle (needs Fairness)
Returns == (pc # "idle") ~> (pc = "idle")

=============================================================================
