SPECIFICATION Spec
CONSTANTS
  Docs <- MC_Docs1
  Texts <- MC_Texts2
  ReqKinds <- MC_ReqKinds
  PosClasses <- MC_PosClasses
  UnwrapClasses <- MC_Unwrap
  PanicTexts <- MC_PanicTexts
  AsBuilt <- MC_AnalysisPanic
  H = 3
  MaxInFlight = 1
INVARIANT TypeOK
INVARIANT EmitDeath
INVARIANT ServerAlive
CHECK_DEADLOCK FALSE
