----------------------------- MODULE MC_SemaAlgo -----------------------------
EXTENDS Naturals, Sequences, FiniteSets, TLC, Json, IOUtils
MCG == ndJsonDeserialize(IOEnv.GFILE)[1]
VARIABLES F, Fo, used, phase
INSTANCE SemaAlgo WITH G <- MCG
=============================================================================
