--------------------------------- MODULE Cli ---------------------------------
(***************************************************************************)
(* Component F (command line) of lelwel: ONE `llw` invocation as a step of *)
(* a state machine over an abstract file system.  Property C19:            *)
(*                                                                         *)
(*   "The tool only writes what it promises and never clobbers hand-edited *)
(*    files.  In check mode lelwel creates or modifies no file.  In        *)
(*    generate mode it writes the generated parser only when the grammar   *)
(*    has no error, and it creates the lexer and parser-callback skeletons *)
(*    only when neither file exists next to the grammar - an existing      *)
(*    lexer.rs or parser.rs is left byte-for-byte untouched.  In check and *)
(*    generate mode the exit status is success exactly when no error       *)
(*    diagnostic was reported."                                            *)
(*                                                                         *)
(* Code anchors: src/lib.rs `compile`, src/bin/llw.rs `main`,              *)
(* src/backend/rust.rs `RustOutput::run`, src/backend/graphviz.rs          *)
(* `GraphvizOutput::run`.                                                  *)
(*                                                                         *)
(* Layout of the abstract file system                                      *)
(*   grammar  the .llw file given as INPUT                                 *)
(*   lexer    lexer.rs  next to the grammar   (hand-edited by the user)    *)
(*   parser   parser.rs next to the grammar   (hand-edited by the user)    *)
(*   genOut   <dir given with -o>/generated.rs                             *)
(*   genCwd   ./generated.rs  (the default output directory is ".")        *)
(*   gv       ./parser.gv     (graphviz output, always the cwd)            *)
(*   other    every other path of the directory tree (bystanders)          *)
(*                                                                         *)
(* The module has three layers:                                            *)
(*  1. the CONTRACT: the clauses of C19 as predicates over one observed    *)
(*     transition (pre-state, flags, result); they do not mention Effect;  *)
(*  2. the MACHINE: Effect/Apply, written like `compile`, with the         *)
(*     deviations of the code from the design as NAMED switches in the     *)
(*     constant set AsBuilt;                                               *)
(*  3. the behaviour spec Init/Next (histories of MaxSteps invocations).   *)
(* Trace_Cli.tla applies layer 1 to transitions recorded from the real     *)
(* binary; MC_Cli.tla model-checks layer 1 against layers 2+3.             *)
(***************************************************************************)
EXTENDS Naturals, Sequences, FiniteSets

CONSTANTS AsBuilt,    \* subset of Switches: deviations of the code that are switched on
          MaxSteps    \* length of the histories (invocations in a row)

(***************************************************************************)
(* Named deviations.  Only "GraphInCheck" is a deviation of the pinned     *)
(* tree (finding #6: `llw -c -g x.llw` writes parser.gv).  The other three *)
(* are the spec-level twins of the code mutants used to show that every    *)
(* clause can fail (MC_Cli_Mutant.cfg); they are never part of AsBuilt for *)
(* the real tree.                                                          *)
(***************************************************************************)
Switches == {"GraphInCheck", "SkeletonIfEither", "GenerateOnError", "ExitIgnoresErrors"}

Classes    == {"accepted", "warn", "synerr", "semerr", "unreadable"}
UserFile   == {"absent", "user", "skeleton"}
OutFile    == {"absent", "stale", "fresh"}
FileNames  == {"grammar", "lexer", "parser", "genOut", "genCwd", "gv", "other"}

FsType == [gclass    : Classes,     \* verdict class of the grammar text (never changed by llw)
           formatted : BOOLEAN,     \* the grammar text is a fixed point of the formatter
           lexer     : UserFile,
           parser    : UserFile,
           genOut    : OutFile,
           genCwd    : OutFile,
           gv        : OutFile,
           outRO     : BOOLEAN]     \* File::create in the -o directory fails

Flags == [check : BOOLEAN, format : BOOLEAN, graph : BOOLEAN, verbose : 0..2,
          short : BOOLEAN, out : BOOLEAN]     \* out: `-o <dir>` given (else ".")

ResType == [exit  : {0, 1, 2},           \* process exit status
            wrote : SUBSET FileNames,    \* files created or written (bytes OR mtime changed)
            err   : BOOLEAN]             \* an error (diagnostic or I/O) was reported on stderr

HasError(f) == f.gclass \in {"synerr", "semerr"}
Readable(f) == f.gclass # "unreadable"
GenMode(fl) == ~fl.check /\ ~fl.format
GenFile(fl) == IF fl.out THEN "genOut" ELSE "genCwd"

-----------------------------------------------------------------------------
(***************************************************************************)
(* 1. CONTRACT — one predicate per clause of C19 over (pre, flags, result) *)
(***************************************************************************)

\* "In check mode lelwel creates or modifies no file."
CheckWritesNothing(pre, fl, r) == fl.check => r.wrote = {}

\* "... it writes the generated parser only when the grammar has no error"
GeneratedOnlyIfNoError(pre, fl, r) ==
  (r.wrote \cap {"genOut", "genCwd"} # {}) => (Readable(pre) /\ ~HasError(pre))

\* "... creates the lexer and parser-callback skeletons only when neither file exists"
SkeletonsOnlyIfNeither(pre, fl, r) ==
  (r.wrote \cap {"lexer", "parser"} # {}) => (pre.lexer = "absent" /\ pre.parser = "absent")

\* "an existing lexer.rs or parser.rs is left byte-for-byte untouched"
UserFilesUntouched(pre, fl, r) ==
  /\ pre.lexer  # "absent" => "lexer"  \notin r.wrote
  /\ pre.parser # "absent" => "parser" \notin r.wrote

\* "In check and generate mode the exit status is success exactly when no error ... was reported."
ExitIffNoError(pre, fl, r) == ~fl.format => ((r.exit = 0) <=> ~r.err)

\* "The tool only writes what it promises": outside check mode (which has its own clause)
\* nothing but the files promised for the mode is written.
Promised(fl) ==
  IF fl.format THEN {"grammar"}
  ELSE {GenFile(fl), "lexer", "parser"} \cup (IF fl.graph THEN {"gv"} ELSE {})
OnlyPromisedFiles(pre, fl, r) == ~fl.check => r.wrote \subseteq Promised(fl)

ClauseNames == <<"CheckWritesNothing", "GeneratedOnlyIfNoError", "SkeletonsOnlyIfNeither",
                 "UserFilesUntouched", "ExitIffNoError", "OnlyPromisedFiles">>

Clause(name, pre, fl, r) ==
  CASE name = "CheckWritesNothing"     -> CheckWritesNothing(pre, fl, r)
    [] name = "GeneratedOnlyIfNoError" -> GeneratedOnlyIfNoError(pre, fl, r)
    [] name = "SkeletonsOnlyIfNeither" -> SkeletonsOnlyIfNeither(pre, fl, r)
    [] name = "UserFilesUntouched"     -> UserFilesUntouched(pre, fl, r)
    [] name = "ExitIffNoError"         -> ExitIffNoError(pre, fl, r)
    [] name = "OnlyPromisedFiles"      -> OnlyPromisedFiles(pre, fl, r)

Contract(pre, fl, r) == \A i \in DOMAIN ClauseNames : Clause(ClauseNames[i], pre, fl, r)

\* Not part of C19's text (llw --help: "exits with 1 if check mode is used and there were
\* changes"): the exit rule of format mode.  Checked on the model, compared as model
\* conformance (not an alarm) on the real binary.
FormatExitRule(pre, fl, r) ==
  (fl.format /\ Readable(pre)) =>
     IF fl.check THEN (r.exit = 0) <=> pre.formatted ELSE r.exit = 0

-----------------------------------------------------------------------------
(***************************************************************************)
(* 2. MACHINE — the effect of `compile(input, output, check, format,       *)
(*    verbose, graph, short)` followed by llw's exit, in the code's order. *)
(***************************************************************************)
On(sw) == sw \in AsBuilt

Effect(f, fl) ==
  IF ~Readable(f)
  THEN \* `read_to_string(input)?` -> Err -> clap's cmd.error(..).exit() = status 2
       [exit |-> 2, wrote |-> {}, err |-> TRUE]
  ELSE IF fl.format
  THEN \* the format branch returns early: no sema, no diagnostics, no graph, no generation
       IF fl.check
       THEN [exit |-> IF f.formatted THEN 0 ELSE 1, wrote |-> {}, err |-> FALSE]
       ELSE [exit |-> 0, wrote |-> {"grammar"}, err |-> FALSE]
  ELSE
    LET noerr    == ~HasError(f)
        gate     == noerr \/ On("GenerateOnError")
        doGraph  == fl.graph /\ gate /\ (~fl.check \/ On("GraphInCheck"))
        doGen    == gate /\ ~fl.check
        genFails == doGen /\ fl.out /\ f.outRO        \* File::create(<out>/generated.rs)? fails
        genOK    == doGen /\ ~genFails
        neither  == IF On("SkeletonIfEither")
                    THEN f.lexer = "absent" \/ f.parser = "absent"
                    ELSE f.lexer = "absent" /\ f.parser = "absent"
        doSkel   == genOK /\ neither                  \* `?` returned before the skeletons
        errRep   == ~noerr \/ genFails
    IN [exit  |-> IF genFails THEN 2
                  ELSE IF noerr \/ On("ExitIgnoresErrors") THEN 0 ELSE 1,
        wrote |-> (IF doGraph THEN {"gv"} ELSE {})    \* graph output comes first in the code
                  \cup (IF genOK THEN {GenFile(fl)} ELSE {})
                  \cup (IF doSkel THEN {"lexer", "parser"} ELSE {}),
        err   |-> errRep]

\* the file system after the files in w have been written
Apply(f, w) ==
  [f EXCEPT !.formatted = IF "grammar" \in w THEN TRUE ELSE @,
            !.lexer     = IF "lexer"   \in w THEN "skeleton" ELSE @,
            !.parser    = IF "parser"  \in w THEN "skeleton" ELSE @,
            !.genOut    = IF "genOut"  \in w THEN "fresh" ELSE @,
            !.genCwd    = IF "genCwd"  \in w THEN "fresh" ELSE @,
            !.gv        = IF "gv"      \in w THEN "fresh" ELSE @]

-----------------------------------------------------------------------------
(***************************************************************************)
(* 3. BEHAVIOURS — up to MaxSteps invocations in a row on one directory    *)
(***************************************************************************)
VARIABLES fs,     \* the abstract file system
          res,    \* result of the last invocation (ResType)
          last,   \* flags of the last invocation (history variable)
          step,   \* number of invocations so far
          hist    \* history variable: <<[pre, fl, res], ...>> of the earlier invocations

vars == <<fs, res, last, step, hist>>

NoFlags == [check |-> FALSE, format |-> FALSE, graph |-> FALSE, verbose |-> 0,
            short |-> FALSE, out |-> FALSE]
NoRes   == [exit |-> 0, wrote |-> {}, err |-> FALSE]

\* What a user's directory looks like before the first invocation: lexer.rs / parser.rs absent
\* or hand-written; left-overs (generated.rs, parser.gv) of some earlier, unrelated run either
\* everywhere or nowhere; a read-only output directory is empty.
InitFs ==
  {f \in FsType :
     /\ f.lexer  \in {"absent", "user"}
     /\ f.parser \in {"absent", "user"}
     /\ \E s \in {"absent", "stale"} :
          /\ f.genCwd = s
          /\ f.gv = s
          /\ f.genOut = IF f.outRO THEN "absent" ELSE s
     /\ (~Readable(f) => ~f.formatted)}

Init ==
  /\ fs \in InitFs
  /\ res = NoRes
  /\ last = NoFlags
  /\ step = 0
  /\ hist = <<>>

Run(fl) ==
  LET r == Effect(fs, fl) IN
  /\ step < MaxSteps
  /\ fs'   = Apply(fs, r.wrote)
  /\ res'  = r
  /\ last' = fl
  /\ step' = step + 1
  /\ hist' = Append(hist, [pre |-> fs, fl |-> fl, res |-> r])

Next == \E fl \in Flags : Run(fl)

Spec == Init /\ [][Next]_vars

-----------------------------------------------------------------------------
(***************************************************************************)
(* Properties.  The clauses are ACTION properties (they relate the state   *)
(* before an invocation to the result): [][Clause(fs, last', res')]_vars.  *)
(***************************************************************************)
TypeOK ==
  /\ fs \in FsType
  /\ res \in ResType
  /\ last \in Flags
  /\ step \in 0..MaxSteps
  /\ Len(hist) = step

PCheckWritesNothing     == [][CheckWritesNothing(fs, last', res') /\ (last'.check => fs' = fs)]_vars
PGeneratedOnlyIfNoError == [][GeneratedOnlyIfNoError(fs, last', res')]_vars
PSkeletonsOnlyIfNeither == [][SkeletonsOnlyIfNeither(fs, last', res')]_vars
PUserFilesUntouched     == [][UserFilesUntouched(fs, last', res')
                               /\ (fs.lexer  # "absent" => fs'.lexer  = fs.lexer)
                               /\ (fs.parser # "absent" => fs'.parser = fs.parser)]_vars
PExitIffNoError         == [][ExitIffNoError(fs, last', res')]_vars
POnlyPromisedFiles      == [][OnlyPromisedFiles(fs, last', res')]_vars
PFormatExitRule         == [][FormatExitRule(fs, last', res')]_vars
\* llw never changes the verdict class of the grammar and never makes a directory read-only
PFrame                  == [][fs'.gclass = fs.gclass /\ fs'.outRO = fs.outRO]_vars

\* State invariants that follow from the clauses over whole histories
\* (gclass is constant along a behaviour, so they are inductive):
\* a fresh generated.rs exists only for an error-free grammar ...
FreshOnlyIfNoError ==
  (fs.genOut = "fresh" \/ fs.genCwd = "fresh") => (Readable(fs) /\ ~HasError(fs))
\* ... skeletons come in pairs and only together with a generated parser ...
SkeletonsWithGenerated ==
  (fs.lexer = "skeleton" \/ fs.parser = "skeleton") =>
     (fs.lexer = "skeleton" /\ fs.parser = "skeleton" /\ (fs.genOut = "fresh" \/ fs.genCwd = "fresh"))
\* ... and nothing is ever written into a read-only output directory.
ReadOnlyStaysEmpty == fs.outRO => fs.genOut = "absent"
\* Every recorded step satisfies the whole contract (the history is kept out of the
\* fingerprint by the VIEW of MC_Cli, so this is checked on first visits only; the action
\* properties above are the complete check).
HistoryOK == \A i \in DOMAIN hist : Contract(hist[i].pre, hist[i].fl, hist[i].res)

=============================================================================
