------------------------------ MODULE Trace_Lsp ------------------------------
(***************************************************************************)
(* Trace validation of recorded runs of the real language server against   *)
(* Lsp.tla (impl -> spec direction of C20).                                *)
(*                                                                         *)
(* IOEnv.TRACE is an ndjson file, one recorded session per line:           *)
(*   {"id": "..", "events": [ {"op","doc","text","kind","pos","out","tag"} ]}*)
(* One event per client message, at the granularity the client can see:    *)
(* the message and what came back for it                                   *)
(*   out = "pub"     publishDiagnostics, tag = text id they belong to      *)
(*         "ans"     response,            tag = text id it was computed from*)
(*         "default" response produced by the `Err => default` arm (the    *)
(*                   harness saw the analyzer thread die during the step)  *)
(*         "closed"  didClose handled                                      *)
(*         "dead"    the handler panicked / the process died               *)
(* The analyzer-thread steps and the main thread's inner steps are not     *)
(* logged: they are composed as silent steps of the very actions of        *)
(* Lsp.tla between two logged events.  Every session is an initial state   *)
(* (variables sid, evs), so one TLC run validates a whole file; a session is       *)
(* accepted iff some behaviour of the spec consumes all its events, which  *)
(* is reported by an "ACC|{..}" line (sessions without one are rejected).  *)
(* IOEnv.ASBUILT = "1" validates against the as-built machine              *)
(* (AsBuilt = {"PositionUnwrap"}), anything else against the intended one. *)
(***************************************************************************)
EXTENDS Lsp, Json, IOUtils

Rec == ndJsonDeserialize(IOEnv.TRACE)

\* The recording is read ONCE, in the initial predicate, and carried in the state (`evs`): TLC
\* does not cache the Java-backed ndJsonDeserialize, so no action may mention Rec.
VARIABLES sid, evs, l
tvars == <<vars, sid, evs, l>>

T_Docs    == {1, 2, 3}
T_Texts   == Nat \ {0}
T_Kinds   == {"hover", "definition", "references", "completion", "formatting"}
T_Pos     == {"inname", "intrivia", "lineend", "eolterm", "pasteol", "pastlastline", "midsurrogate"}
T_Unwrap  == {"pasteol", "pastlastline", "midsurrogate"}
T_AsBuilt == IF "ASBUILT" \in DOMAIN IOEnv /\ IOEnv.ASBUILT = "1" THEN {"PositionUnwrap"} ELSE {}
T_None    == {}

MsgOf(e) == [op |-> e.op, doc |-> e.doc, text |-> e.text, kind |-> e.kind, pos |-> e.pos]

Matches(a, e) ==
  /\ a.out = e.out
  /\ a.out \in {"pub", "ans"} => a.tag = e.tag

TInit ==
  /\ Init
  /\ \E i \in DOMAIN Rec : sid = Rec[i].id /\ evs = Rec[i].events
  /\ l = 1

\* the client writes the message of event l once everything before it has been observed
SendEv ==
  /\ l <= Len(evs)
  /\ pc = "idle" /\ inbox = <<>> /\ Len(hist) = l - 1
  /\ Send(MsgOf(evs[l]))
  /\ UNCHANGED <<sid, evs, l>>

\* silent steps of the machine; the step that produces the client-visible outcome consumes event l
Silent ==
  /\ MainStep \/ ThreadStep
  /\ UNCHANGED <<sid, evs>>
  /\ IF Len(answers') > Len(answers)
       THEN /\ l <= Len(evs)
            /\ Matches(answers'[Len(answers')], evs[l])
            /\ l' = l + 1
       ELSE IF alive /\ ~alive'
              THEN /\ l <= Len(evs)
                   /\ evs[l].out = "dead"
                   /\ l' = l + 1
              ELSE l' = l

TNext == SendEv \/ Silent
TSpec == TInit /\ [][TNext]_tvars

Accept ==
  (l = Len(evs) + 1) => PrintT("ACC|" \o ToJson([id |-> sid]))

\* how far the rejected sessions got: printed when the last-but-one... every 4th consumed event
Progress ==
  (l > 1 /\ pc \in {"idle", "dead"} /\ (l = Len(evs) \/ (l - 1) % 4 = 0)) =>
      PrintT("PRG|" \o ToJson([id |-> sid, l |-> l - 1]))
=============================================================================
