------------------------------- MODULE MC_P2F -------------------------------
(***************************************************************************)
(* Pipeline P2, free exploration of the machine specification: every       *)
(* entry point x every input up to length N over the alphabet x every      *)
(* outcome of every predicate and assertion (drawn nondeterministically    *)
(* in the step that asks).  Invariants are evaluated in EVERY state:       *)
(* bounded work (no loop or recursion without consumption), cursor/tree    *)
(* lock step, no panic of a partial operation, and at the end a well       *)
(* formed, lossless node vector.  The number of completed behaviours is    *)
(* printed so that the harness can check that its own enumeration of the   *)
(* real parser covered exactly the same points.                            *)
(***************************************************************************)
EXTENDS Naturals, Sequences, FiniteSets, TLC, Json, IOUtils

MCG == ndJsonDeserialize(IOEnv.GFILE)[1]
P == ndJsonDeserialize(IOEnv.PFILE)[1]      \* [alpha |-> <<tok...>>, n |-> N, asbuilt |-> <<...>>]

INSTANCE ParserMachine WITH G <- MCG, AsBuilt <- {P.asbuilt[k] : k \in DOMAIN P.asbuilt}

Alpha == {P.alpha[k] : k \in DOMAIN P.alpha}
Inputs == UNION {[1..n -> Alpha] : n \in 0..P.n}
Entries == 0..Len(MCG.parts)
Scripts == {<<>>} \cup {<<a>> : a \in BOOLEAN} \cup {<<a, b>> : a \in BOOLEAN, b \in BOOLEAN}
           \cup {<<a, b, c>> : a \in BOOLEAN, b \in BOOLEAN, c \in BOOLEAN}

VARIABLE s

Init == \E w \in Inputs : \E en \in Entries : s = Init0(w, en, <<>>)

\* the step may ask up to three outcomes; whatever it does not consume is dropped again
Next == /\ ~Done(s)
        /\ \E sc \in Scripts :
             LET t == Step([s EXCEPT !.script = sc]) IN
             /\ Len(t.script) = 0 \/ Len(t.used) = Len(s.used)   \* canonical: consumed all of sc, or none asked
             /\ (Len(t.used) = Len(s.used)) => sc = <<>>
             /\ s' = [t EXCEPT !.script = <<>>]

Fuel == s.steps <= 40 * (Len(MCG.nodes) + 6) * (Len(s.w) + 2)

RECURSIVE TokIdx(_, _, _)
TokIdx(nodes, k, next) ==
  IF k > Len(nodes) THEN next
  ELSE IF nodes[k][1] = "t" THEN (IF nodes[k][3] = next THEN TokIdx(nodes, k + 1, next + 1) ELSE 0 - 1)
  ELSE TokIdx(nodes, k + 1, next)
LockStep == TokIdx(s.nodes, 1, 0) = s.tc /\ s.tc = s.pos

NoPanic == s.status # "panic"

FlatOK(flat) ==
  /\ Len(flat) >= 1 /\ flat[1][1] = "r" /\ 1 + flat[1][3] = Len(flat)
  /\ \A i \in 1..Len(flat) :
       flat[i][1] = "r" =>
         /\ i + flat[i][3] <= Len(flat)
         /\ \A j \in (i + 1)..(i + flat[i][3]) : flat[j][1] = "r" => j + flat[j][3] <= i + flat[i][3]

FinalTree == (s.status = "done") =>
  /\ FlatOK(s.nodes)
  /\ s.tc = Len(s.w)
  /\ \A k \in 1..Len(s.nodes) : s.nodes[k][1] = "t" => s.nodes[k][2] = s.w[s.nodes[k][3] + 1]
  /\ s.en = 0
  /\ \A k \in 1..(Len(s.diags) - 1) : s.diags[k] <= s.diags[k + 1]

\* liveness (C03): under weak fairness every behaviour reaches a final state
Spec == Init /\ [][Next]_s /\ WF_s(Next)
Termination == <>(s.status # "run")

Count == (s.status # "run") => PrintT("DONE|" \o ToJson([en |-> s.entry, w |-> s.w, u |-> s.used]))
=============================================================================
