------------------------------ MODULE MC_Format ------------------------------
(***************************************************************************)
(* Pipeline P5 (formatter, C17 / C18).  Two uses of FormatModel:           *)
(*                                                                         *)
(*  GENERATOR (MC_Format_Gen.cfg): TLC enumerates the layout domain -      *)
(*  every skeleton SKLO..SKHI in every layout with at most KFULL / KMED /  *)
(*  KSMALL deviating gaps (options OptsFull / OptsMed / OptsSmall) plus    *)
(*  the uniform layouts - one state per layout, and prints the concrete    *)
(*  text as "TXT|{json}".  Bounds come from the environment (IOEnv).       *)
(*                                                                         *)
(*  JUDGE (MC_Format_C17.cfg, MC_Format_C18.cfg): TLC evaluates the        *)
(*  contract predicates on triples RECORDED from the real formatter, one   *)
(*  state per record of IOEnv.RFILE.  Failures are printed as "V|{json}";  *)
(*  the invariants stay TRUE so that one run reports every failure.        *)
(***************************************************************************)
EXTENDS FormatModel, Json, IOUtils

VARIABLE st

----------------------------------------------------------------------------
\* generator
KFull  == atoi(IOEnv.KFULL)
KMed   == atoi(IOEnv.KMED)
KSmall == atoi(IOEnv.KSMALL)
SkLo   == atoi(IOEnv.SKLO)
SkHi   == atoi(IOEnv.SKHI)

LayoutsOf(k) ==
  LET sk == Skeletons[k] IN
  IF k <= NSmall
  THEN Deviations(sk, KFull, OptsFull) \cup Deviations(sk, KMed, OptsMed) \cup
       Deviations(sk, KSmall, OptsSmall) \cup { Uniform(sk, g) : g \in OptsFull }
  ELSE Deviations(sk, 1, OptsFull) \cup { Uniform(sk, g) : g \in OptsFull }

GenInit ==
  \E k \in SkLo .. SkHi : \E d \in LayoutsOf(k) : st = [sk |-> k, dev |-> d]

GenNext == UNCHANGED st

\* structured layout: the deviating gaps as <<position, pre, comment, post>>
DevSeq(sk, dev) ==
  LET ps == { p \in Positions(sk) : p \in DOMAIN dev }
      RECURSIVE Lst(_)
      Lst(S) == IF S = {} THEN <<>>
                ELSE LET m == CHOOSE x \in S : \A y \in S : x <= y
                     IN <<[p |-> m, pre |-> dev[m].pre, c |-> dev[m].c, post |-> dev[m].post]>> \o Lst(S \ {m})
  IN Lst(ps)

Emit ==
  LET sk == Skeletons[st.sk] IN
  PrintT("TXT|" \o ToJson([k |-> st.sk, t |-> Text(sk, st.dev), d |-> DevSeq(sk, st.dev)]))

\* the skeleton table itself (printed once per run), for the independent renderer on the Python side
ASSUME PrintT("SK|" \o ToJson([s |-> Skeletons, gaps |-> GapText, spell |-> Spell]))

----------------------------------------------------------------------------
\* judge
Recs == ndJsonDeserialize(IOEnv.RFILE)

JudgeInit == \E i \in 1 .. Len(Recs) : st = [i |-> i]
JudgeNext == UNCHANGED st

Say(why) == PrintT("V|" \o ToJson([i |-> st.i, n |-> Recs[st.i].name, why |-> why]))

JudgeC17 ==
  LET why == C17Why(Recs[st.i]) IN why = "" \/ Say(why)

JudgeC18 ==
  LET r == Recs[st.i]
      why == C18Why(r)
      cli == IF "cli" \in DOMAIN r THEN CliWhy(r) ELSE ""
  IN /\ why = "" \/ Say(why)
     /\ cli = "" \/ Say(cli)
=============================================================================
