INIT RtInit
NEXT RtNext
INVARIANT RtTheorem
INVARIANT RtEmit
CHECK_DEADLOCK FALSE
