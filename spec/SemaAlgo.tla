------------------------------- MODULE SemaAlgo -------------------------------
(***************************************************************************)
(* Operational counterpart of Grammar.tla for the iterative passes of      *)
(* frontend/sema.rs (calc_first, calc_follow, the usage closure): the      *)
(* passes are chaotic iterations "visit one rule, update the sets of its   *)
(* constructs from the current values".  lelwel visits the rules in        *)
(* declaration order; here ANY rule may be visited at any time, so the     *)
(* declaration order is just one schedule.  TLC checks for every           *)
(* reachable state that the sets are below the textbook fixpoints, and     *)
(* for every state in which no visit changes anything that they EQUAL      *)
(* them: the result is independent of the order (model-level half of C15). *)
(***************************************************************************)
EXTENDS Grammar

CONSTANT G

VARIABLES F, Fo, used, phase
vars == <<F, Fo, used, phase>>

P0 == ParentMap(G)
Own0 == OwnerMap(G, P0)
FirstFix == First(G)
FollowFix == Follow(G, P0, FirstFix)
UsedFix == {i \in RuleIds(G) : G.rules[i].body = 0 \/ G.rules[i].body \in UsedFromStart(G)} \cup {RuleByName(G, G.start)}

Init == /\ F = [n \in Nodes(G) |-> {}]
        /\ Fo = [n \in Nodes(G) |-> {}]
        /\ used = {RuleByName(G, G.start)}
        /\ phase = "first"

\* one visit of rule r in the first pass: its constructs are recomputed from the current sets
VisitFirst(r) ==
  /\ phase = "first"
  /\ LET S == FirstStep(G, F) IN
     F' = [n \in Nodes(G) |-> IF Own0[n] = r THEN F[n] \cup S[n] ELSE F[n]]
  /\ UNCHANGED <<Fo, used, phase>>

FirstStable == \A r \in RuleIds(G) :
  LET S == FirstStep(G, F) IN \A n \in Nodes(G) : Own0[n] = r => S[n] \subseteq F[n]

NextPhase ==
  \/ /\ phase = "first" /\ FirstStable /\ phase' = "follow" /\ UNCHANGED <<F, Fo, used>>
  \/ /\ phase = "follow" /\ phase' = "usage" /\ UNCHANGED <<F, Fo, used>>
     /\ LET S == FollowStepWith(G, P0, F, Fo) IN \A n \in Nodes(G) : S[n] \subseteq Fo[n]

VisitFollow(r) ==
  /\ phase = "follow"
  /\ LET S == FollowStepWith(G, P0, F, Fo) IN
     Fo' = [n \in Nodes(G) |-> IF Own0[n] = r THEN Fo[n] \cup S[n] ELSE Fo[n]]
  /\ UNCHANGED <<F, used, phase>>

\* usage closure: visiting a used rule marks the rules it references
VisitUsage(r) ==
  /\ phase = "usage" /\ r \in used
  /\ used' = used \cup {RuleByName(G, G.nodes[n].r) : n \in {n \in Nodes(G) : Own0[n] = r /\ K(G, n) = "ref"}}
  /\ UNCHANGED <<F, Fo, phase>>

Next == \/ \E r \in RuleIds(G) : VisitFirst(r) \/ VisitFollow(r) \/ VisitUsage(r)
        \/ NextPhase

Spec == Init /\ [][Next]_vars

\* soundness in every state
BelowFixpoint ==
  /\ \A n \in Nodes(G) : F[n] \subseteq FirstFix[n]
  /\ \A n \in Nodes(G) : Fo[n] \subseteq FollowFix[n]
  /\ used \subseteq UsedFix

\* the first pass is complete when the follow pass starts, whatever the order was
FirstCompleteBeforeFollow == phase # "first" => F = FirstFix
FollowCompleteBeforeUsage == phase = "usage" => Fo = FollowFix
UsageStable ==
  (phase = "usage" /\ \A r \in used : \A n \in Nodes(G) :
       (Own0[n] = r /\ K(G, n) = "ref") => RuleByName(G, G.nodes[n].r) \in used)
  => used = UsedFix
=============================================================================
