INIT Init
NEXT Next
INVARIANT JudgeBinding
CHECK_DEADLOCK FALSE
