INIT Init
NEXT Next
INVARIANT Judge
CHECK_DEADLOCK FALSE
