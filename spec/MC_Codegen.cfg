INIT Init
NEXT Next
INVARIANT JudgeC11
CHECK_DEADLOCK FALSE
