------------------------------- MODULE MC_P2M -------------------------------
(***************************************************************************)
(* Pipeline P2, machine conformance: the machine specification is run on   *)
(* exactly the (entry, input, outcome script) points that were recorded    *)
(* from the real generated parser; at the end of every behaviour the       *)
(* machine's node vector, diagnostics and callback events are compared     *)
(* with the recording.  Differences are reported as "DRIFT|" lines (they   *)
(* are never alarms by themselves, DESIGN 3.5); invariants of the machine  *)
(* are checked in every intermediate state.                                *)
(***************************************************************************)
EXTENDS Naturals, Sequences, FiniteSets, TLC, Json, IOUtils

MCG == ndJsonDeserialize(IOEnv.GFILE)[1]
MCAsBuilt == {"RestoreKeepsErrorState"}
Recs == ndJsonDeserialize(IOEnv.RFILE)

INSTANCE ParserMachine WITH G <- MCG, AsBuilt <- MCAsBuilt

VARIABLES i, s
vars == <<i, s>>

Init == /\ i \in 1..Len(Recs)
        /\ s = Init0(Recs[i].w, Recs[i].en, Recs[i].s)

Next == /\ ~Done(s)
        /\ s' = Step(s)
        /\ i' = i

Say(what) == PrintT("DRIFT|" \o ToJson([i |-> i, what |-> what]))

Conform ==
  Done(s) =>
    LET r == Recs[i] IN
    /\ ((s.status = "panic") = r.panic) \/ Say("status")
    /\ r.panic \/ s.status = "panic" \/
       /\ (s.nodes = r.flat) \/ Say("nodes")
       /\ (s.diags = r.dl) \/ Say("diags")
       /\ (s.ev = r.evs) \/ Say("events")
       /\ (s.used = r.s) \/ Say("script")

\* model-level C03: bounded work per input (no recursion or loop without consumption)
Fuel == s.steps <= 40 * (Len(MCG.nodes) + 6) * (Len(s.w) + 2)

\* model-level C01 mechanism: cursor and tree move in lock step
RECURSIVE TokIdx(_, _, _)
TokIdx(nodes, k, next) ==
  IF k > Len(nodes) THEN next
  ELSE IF nodes[k][1] = "t" THEN (IF nodes[k][3] = next THEN TokIdx(nodes, k + 1, next + 1) ELSE 0 - 1)
  ELSE TokIdx(nodes, k + 1, next)
LockStep == s.status = "panic" \/ (TokIdx(s.nodes, 1, 0) = s.tc /\ s.tc = s.pos)

\* reporting variant: evaluated in every state, printed once per behaviour (at its end)
SayInv(what) == PrintT("INV|" \o ToJson([i |-> i, what |-> what]))
LockStepReport == (Done(s) /\ s.status = "done") => (TokIdx(s.nodes, 1, 0) = Len(s.w) \/ SayInv("lockstep"))

\* which named deviations of the as-built machine fired in this behaviour (classification of
\* known findings, DESIGN 6.2)
DevReport == (Done(s) /\ s.dev # {}) => PrintT("DEV|" \o ToJson([i |-> i, dev |-> s.dev]))

NoModelPanic == s.status # "panic" \/ Recs[i].panic

=============================================================================
