INIT Init
NEXT Next
INVARIANT Conform
INVARIANT Fuel
INVARIANT LockStepReport
INVARIANT DevReport
CHECK_DEADLOCK FALSE
