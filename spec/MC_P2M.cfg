INIT Init
NEXT Next
INVARIANT Conform
INVARIANT Fuel
INVARIANT LockStepReport
CHECK_DEADLOCK FALSE
