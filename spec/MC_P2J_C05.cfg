INIT Init
NEXT Next
INVARIANT JudgeC05
CHECK_DEADLOCK FALSE
