INIT Init
NEXT Next
INVARIANT Match
INVARIANT Fuel
CHECK_DEADLOCK FALSE
