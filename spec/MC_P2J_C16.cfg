INIT Init
NEXT Next
INVARIANT JudgeC16
CHECK_DEADLOCK FALSE
