--------------------------- MODULE Trace_CstBuilder ---------------------------
(* P3 judge: each record pairs the vector the specification expects after a history with the
   vector the REAL CstData produced for the same history; TLC compares them and re-checks the
   structural contract on the real vector. *)
EXTENDS Naturals, Sequences, TLC, Json, IOUtils
Recs == ndJsonDeserialize(IOEnv.RFILE)
VARIABLE i
Init == i \in 1..Len(Recs)
Next == UNCHANGED i
Say(why) == PrintT("V|" \o ToJson([i |-> i, why |-> why]))
RECURSIVE LeafIdx(_, _, _)
LeafIdx(nodes, k, next) ==
  IF k > Len(nodes) THEN next
  ELSE IF nodes[k][1] = "t" THEN (IF nodes[k][3] = next THEN LeafIdx(nodes, k + 1, next + 1) ELSE 0 - 1)
  ELSE LeafIdx(nodes, k + 1, next)
ExtentsOK(flat) ==
  \A a \in 1..Len(flat) :
    flat[a][1] = "r" =>
      /\ a + flat[a][3] <= Len(flat)
      /\ \A b \in (a + 1)..(a + flat[a][3]) : flat[b][1] = "r" => b + flat[b][3] <= a + flat[a][3]
Judge ==
  LET r == Recs[i] IN
  /\ ~r.real.panic \/ Say("panic")
  /\ r.real.panic \/
     \* the contract: the tree seen through the public API once the history is completed
     /\ (r.real.tree = r.spec.tree) \/ Say("tree_differs_from_reference")
     \* the private vector and counters are compared as well, but only as model drift
     /\ (r.real.nodes = r.spec.nodes /\ r.real.tc = r.spec.tc /\ r.real.nsl = r.spec.nsl)
          \/ PrintT("DRIFT|" \o ToJson([i |-> i]))
     /\ (LeafIdx(r.real.nodes, 1, 0) = r.real.tc) \/ Say("leaves")
     /\ ExtentsOK(r.real.nodes) \/ Say("extents")
=============================================================================
