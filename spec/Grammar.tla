------------------------------- MODULE Grammar -------------------------------
(***************************************************************************)
(* Contract-level specification of grammar analysis (component C of        *)
(* DESIGN.md): textbook nullable / FIRST / FOLLOW / PREDICT as least       *)
(* fixpoints over the grammar given as data, LL(1) conflict definitions,   *)
(* reachability, productivity, dominators by brute force and the recovery  *)
(* sets the README defines.  Nothing in here is transcribed from           *)
(* frontend/sema.rs; SemaAlgo.tla is the operational counterpart.          *)
(*                                                                         *)
(* A grammar G is a record                                                 *)
(*   [ tokens : Seq(STRING), skip, right : Seq(STRING), start : STRING,    *)
(*     parts : Seq([name, mark]),                                          *)
(*     rules : Seq([name, elided, body]),           body = 0: empty rule   *)
(*     nodes : Seq([k, c, t, r, num, name]) ]       pre-order node table   *)
(* k \in { tok ref cat alt oc paren opt star plus                          *)
(*         pred act assert rename elide mark create commit ret }           *)
(***************************************************************************)
EXTENDS Naturals, Sequences, FiniteSets, TLC

EPS  == "eps"
EOFT == "EOF"

EpsKinds == {"pred", "act", "assert", "rename", "elide", "mark", "create", "commit", "ret"}

SeqToSet(s) == {s[i] : i \in DOMAIN s}

Nodes(G)   == 1..Len(G.nodes)
K(G, n)    == G.nodes[n].k
C(G, n)    == G.nodes[n].c
RuleIds(G) == 1..Len(G.rules)
RuleNames(G) == {G.rules[i].name : i \in RuleIds(G)}
RuleByName(G, nm) == CHOOSE i \in RuleIds(G) : G.rules[i].name = nm
BodyOf(G, nm) == G.rules[RuleByName(G, nm)].body
PartNames(G) == {G.parts[i].name : i \in DOMAIN G.parts}
PartMark(G, nm) == (CHOOSE i \in DOMAIN G.parts : G.parts[i].name = nm)
MarkOf(G, nm) == G.parts[PartMark(G, nm)].mark
AllMarks(G) == {G.parts[i].mark : i \in DOMAIN G.parts}

RECURSIVE Lfp(_, _, _)
Lfp(Op(_, _), G, x) == LET y == Op(G, x) IN IF y = x THEN x ELSE Lfp(Op, G, y)

(***************************************************************************)
(* Structure: parent, position in parent, owning rule.                     *)
(***************************************************************************)
ParentMap(G) ==
  [n \in Nodes(G) |->
     LET ps == {m \in Nodes(G) : \E i \in DOMAIN C(G, m) : C(G, m)[i] = n}
     IN IF ps = {} THEN 0 ELSE CHOOSE m \in ps : TRUE]

IndexIn(G, m, n) == CHOOSE i \in DOMAIN C(G, m) : C(G, m)[i] = n

\* rule (index) whose body is n, or 0
RuleOfBody(G, n) ==
  LET rs == {i \in RuleIds(G) : G.rules[i].body = n}
  IN IF rs = {} THEN 0 ELSE CHOOSE i \in rs : TRUE

RECURSIVE RootOf(_, _, _)
RootOf(G, P, n) == IF P[n] = 0 THEN n ELSE RootOf(G, P, P[n])
OwnerMap(G, P) == [n \in Nodes(G) |-> RuleOfBody(G, RootOf(G, P, n))]

RefsTo(G, nm) == {n \in Nodes(G) : K(G, n) = "ref" /\ G.nodes[n].r = nm}

(***************************************************************************)
(* FIRST (with the empty-word marker), textbook equations.                 *)
(***************************************************************************)
RECURSIVE CatFirst(_, _, _)
CatFirst(F, cs, i) ==
  IF i > Len(cs) THEN {EPS}
  ELSE LET f == F[cs[i]]
       IN IF EPS \in f THEN (f \ {EPS}) \cup CatFirst(F, cs, i + 1) ELSE f

FirstStep(G, F) ==
  [n \in Nodes(G) |->
     LET k == K(G, n)  c == C(G, n) IN
     CASE k = "tok" -> {G.nodes[n].t}
       [] k = "ref" -> LET b == BodyOf(G, G.nodes[n].r) IN IF b = 0 THEN {EPS} ELSE F[b]
       [] k = "cat" -> CatFirst(F, c, 1)
       [] k \in {"alt", "oc"} -> UNION {F[c[i]] : i \in DOMAIN c}
       [] k \in {"star", "opt"} -> IF c = <<>> THEN {EPS} ELSE F[c[1]] \cup {EPS}
       [] k = "plus" -> IF c = <<>> THEN {EPS} ELSE F[c[1]]
       [] k = "paren" -> IF c = <<>> THEN {EPS} ELSE F[c[1]]
       [] OTHER -> {EPS}]

First(G) == Lfp(FirstStep, G, [n \in Nodes(G) |-> {}])

(***************************************************************************)
(* FOLLOW: tokens that can appear right after the construct in a           *)
(* sentential form derived from the start rule (followed by EOF) or from a *)
(* part (followed by its own end marker).                                  *)
(***************************************************************************)
FollowStepWith(G, P, F, Fo) ==
  [n \in Nodes(G) |->
     LET m == P[n] IN
     IF m = 0 THEN
       LET ri == RuleOfBody(G, n)
           nm == G.rules[ri].name
       IN (IF nm = G.start THEN {EOFT} ELSE {})
          \cup (IF nm \in PartNames(G) THEN {MarkOf(G, nm)} ELSE {})
          \cup UNION {Fo[x] : x \in RefsTo(G, nm)}
     ELSE
       LET k == K(G, m) IN
       CASE k = "cat" ->
              LET rf == CatFirst(F, C(G, m), IndexIn(G, m, n) + 1)
              IN (rf \ {EPS}) \cup (IF EPS \in rf THEN Fo[m] ELSE {})
         [] k \in {"star", "plus"} -> (F[n] \ {EPS}) \cup Fo[m]
         [] OTHER -> Fo[m]]

Follow(G, P, F) ==
  LET Step(GG, Fo) == FollowStepWith(GG, P, F, Fo)
  IN Lfp(Step, G, [n \in Nodes(G) |-> {}])

Predict(G, F, Fo) ==
  [n \in Nodes(G) |-> (F[n] \ {EPS}) \cup (IF EPS \in F[n] THEN Fo[n] ELSE {})]

(***************************************************************************)
(* Productive and reachable rules; reduced grammars.                       *)
(***************************************************************************)
\* Pr : set of productive nodes (derive some finite token string)
ProdStep(G, Pr) ==
  Pr \cup {n \in Nodes(G) :
     LET k == K(G, n)  c == C(G, n) IN
     CASE k = "tok" -> TRUE
       [] k = "ref" -> LET b == BodyOf(G, G.nodes[n].r) IN b = 0 \/ b \in Pr
       [] k \in {"cat", "plus", "paren"} -> \A i \in DOMAIN c : c[i] \in Pr
       [] k \in {"alt", "oc"} -> \E i \in DOMAIN c : c[i] \in Pr
       [] OTHER -> TRUE}
Productive(G) == Lfp(ProdStep, G, {})

Succ(G, n) ==
  SeqToSet(C(G, n)) \cup
  (IF K(G, n) = "ref" THEN {BodyOf(G, G.nodes[n].r)} \ {0} ELSE {})

StartBody(G) == BodyOf(G, G.start)
PartBodies(G) == {BodyOf(G, nm) : nm \in PartNames(G)} \ {0}

RECURSIVE ReachFrom(_, _, _)
\* nodes reachable from the set S without entering a node of Avoid
ReachFrom(G, S, Avoid) ==
  LET T == S \cup (UNION {Succ(G, n) : n \in S} \ Avoid)
  IN IF T = S THEN S ELSE ReachFrom(G, T, Avoid)

ReachableNodes(G) == ReachFrom(G, ({StartBody(G)} \ {0}) \cup PartBodies(G), {})
UsedFromStart(G)  == ReachFrom(G, {StartBody(G)} \ {0}, {})

Reduced(G) ==
  /\ StartBody(G) # 0
  /\ \A i \in RuleIds(G) :
       LET b == G.rules[i].body IN
       b # 0 => (b \in Productive(G) /\ b \in ReachableNodes(G))

(***************************************************************************)
(* LL(1) conflicts (C10).                                                  *)
(***************************************************************************)
RECURSIVE Guarded(_, _)
\* a branch is guarded when it starts with a semantic predicate
Guarded(G, n) ==
  CASE K(G, n) = "cat"   -> C(G, n) # <<>> /\ K(G, C(G, n)[1]) = "pred"
    [] K(G, n) = "paren" -> C(G, n) # <<>> /\ Guarded(G, C(G, n)[1])
    [] OTHER -> FALSE

\* operands of a concatenation that take part in recursion detection
Transparent == {"pred", "rename", "elide", "act"}
Opnds(G, n) == SelectSeq(C(G, n), LAMBDA x : K(G, x) \notin Transparent)
IsSelfRef(G, x, ri) == K(G, x) = "ref" /\ G.nodes[x].r = G.rules[ri].name

\* classification of a branch of the top-level alternation of rule ri
LeftRec(G, n, ri) ==
  K(G, n) = "cat" /\ Opnds(G, n) # <<>> /\ IsSelfRef(G, Opnds(G, n)[1], ri)
RightRec(G, n, ri) ==
  K(G, n) = "cat" /\ Len(Opnds(G, n)) >= 2
  /\ IsSelfRef(G, Opnds(G, n)[Len(Opnds(G, n))], ri)

IsPrattRule(G, ri) ==
  LET b == G.rules[ri].body
  IN b # 0 /\ K(G, b) = "alt" /\ \E i \in DOMAIN C(G, b) : LeftRec(G, C(G, b)[i], ri)

LeftBranches(G, ri) ==
  LET b == G.rules[ri].body IN SelectSeq(C(G, b), LAMBDA x : LeftRec(G, x, ri))
NudBranches(G, ri) ==
  LET b == G.rules[ri].body IN SelectSeq(C(G, b), LAMBDA x : ~LeftRec(G, x, ri))

\* the construct that follows the left operand of a left-recursive branch
OperatorOf(G, n) == Opnds(G, n)[2]

\* References to rule ri whose follow is NOT governed by binding powers:
\* every reference from another rule, and inside the rule every self
\* reference that is neither the left operand of a left-recursive branch
\* nor the trailing operand of a recursive branch.
GovernedRefs(G, ri) ==
  LET b == G.rules[ri].body IN
  IF b = 0 \/ K(G, b) # "alt" THEN {}
  ELSE UNION {
        LET n == C(G, b)[i] IN
        (IF LeftRec(G, n, ri) THEN {Opnds(G, n)[1]} ELSE {})
        \cup (IF RightRec(G, n, ri) THEN {Opnds(G, n)[Len(Opnds(G, n))]} ELSE {})
        : i \in DOMAIN C(G, b)}

\* narrow = TRUE: only references from other rules count (what the pinned implementation does;
\* used to classify a missing report as the known "in-rule self reference" finding)
LocalFollowN(G, Fo, Own, ri, narrow) ==
  LET nm == G.rules[ri].name IN
  UNION {Fo[x] : x \in {y \in RefsTo(G, nm) \ GovernedRefs(G, ri) : ~narrow \/ Own[y] # ri}}
  \cup (IF nm = G.start THEN {EOFT} ELSE {})
  \cup (IF nm \in PartNames(G) THEN {MarkOf(G, nm)} ELSE {})

\* pairs <<code, node>> that the definition requires (Must) and that it
\* tolerates (May: the weak reading for predicates, DESIGN section 5 C10).
\* A guard settles a shared token only when it is on the EARLIER branch of the pair: the
\* branches are tried in source order, so an unguarded earlier branch takes the token
\* unconditionally and a guard on the later one is never asked ("predicate-guarded first
\* branch exempt" in the property's mechanism).  Hence Must = May for plain alternations.
AltPairsMust(G, Pd, brs) ==
  {<<"E011", brs[i]>> : i \in {i \in DOMAIN brs :
      ~Guarded(G, brs[i]) /\
      \E j \in DOMAIN brs : j > i /\ Pd[brs[i]] \cap Pd[brs[j]] # {}}}
AltPairsMay(G, Pd, brs) ==
  {<<"E011", brs[i]>> : i \in {i \in DOMAIN brs :
      ~Guarded(G, brs[i]) /\
      \E j \in DOMAIN brs : j > i /\ Pd[brs[i]] \cap Pd[brs[j]] # {}}}

LocalFollow(G, Fo, Own, ri) == LocalFollowN(G, Fo, Own, ri, FALSE)

PrattOpPairsN(G, Pd, Fo, Own, ri, strict, narrow) ==
  LET brs == LeftBranches(G, ri)
      \* end markers are not operators: a nullable "operator" must not be required to
      \* be reported because of them, and may be reported because of any of them
      lf0 == LocalFollowN(G, Fo, Own, ri, narrow)
      lf  == IF strict THEN lf0 \ (AllMarks(G) \cup {EOFT}) ELSE lf0 \cup AllMarks(G) \cup {EOFT} IN
  {<<"E012", OperatorOf(G, brs[i])>> : i \in {i \in DOMAIN brs :
      /\ Len(Opnds(G, brs[i])) >= 2
      /\ ~Guarded(G, brs[i])
      /\ \/ Pd[OperatorOf(G, brs[i])] \cap lf # {}
         \/ \E j \in DOMAIN brs : j > i /\ Len(Opnds(G, brs[j])) >= 2
               /\ (strict => ~Guarded(G, brs[j]))
               /\ Pd[OperatorOf(G, brs[i])] \cap Pd[OperatorOf(G, brs[j])] # {}}}

PrattOpPairs(G, Pd, Fo, Own, ri, strict) == PrattOpPairsN(G, Pd, Fo, Own, ri, strict, FALSE)

\* E012 pairs required even under the narrow reading of "may follow the rule"
NarrowE012(G, Pd, Fo, Own) ==
  UNION {IF IsPrattRule(G, ri) THEN PrattOpPairsN(G, Pd, Fo, Own, ri, TRUE, TRUE) ELSE {} : ri \in RuleIds(G)}

NodeConflicts(G, F, Pd, Fo, Own, n, strict) ==
  LET k == K(G, n)  c == C(G, n) IN
  CASE k = "alt" ->
         LET ri == RuleOfBody(G, n) IN
         IF ri # 0 /\ IsPrattRule(G, ri)
         THEN (IF strict THEN AltPairsMust(G, Pd, NudBranches(G, ri))
                         ELSE AltPairsMay(G, Pd, NudBranches(G, ri)))
              \cup PrattOpPairs(G, Pd, Fo, Own, ri, strict)
         ELSE IF strict THEN AltPairsMust(G, Pd, c) ELSE AltPairsMay(G, Pd, c)
    \* "a loop or option body can be empty or shares a token with what may follow it";
    \* a predicate can settle a shared token, it cannot settle an empty body.
    [] k \in {"star", "plus"} ->
         IF c # <<>> /\ Pd[c[1]] \cap Fo[n] # {} /\ (~Guarded(G, c[1]) \/ EPS \in F[c[1]])
         THEN {<<"E013", n>>} ELSE {}
    [] k = "opt" ->
         IF c # <<>> /\ Pd[c[1]] \cap Fo[n] # {} /\ (~Guarded(G, c[1]) \/ EPS \in F[c[1]])
         THEN {<<"E014", n>>} ELSE {}
    [] OTHER -> {}

ConflictsMust(G, F, Pd, Fo, Own) == UNION {NodeConflicts(G, F, Pd, Fo, Own, n, TRUE) : n \in Nodes(G)}
ConflictsMay(G, F, Pd, Fo, Own)  == UNION {NodeConflicts(G, F, Pd, Fo, Own, n, FALSE) : n \in Nodes(G)}

(***************************************************************************)
(* Dominators by brute force and recovery sets (C14).                      *)
(* Graph: construct -> operand, reference -> body of the referenced rule,  *)
(* start body -> body of every part that the start rule does not reach.    *)
(***************************************************************************)
DomRoots(G) ==
  LET used == UsedFromStart(G)
  IN {StartBody(G)} \cup {b \in PartBodies(G) : b \notin used}

\* nodes reachable from the start body in the dominator graph avoiding d
ReachAvoid(G, d) ==
  IF d = StartBody(G) THEN {}
  ELSE ReachFrom(G, DomRoots(G) \ {d}, {d})

DomGraphNodes(G) == ReachFrom(G, DomRoots(G), {})

\* RA : [d |-> ReachAvoid(G, d)] precomputed over DomGraphNodes
Dominators(G, V, RA, n) == {d \in V : d = n \/ n \notin RA[d]}

Recovery(G, F, Fo, V, RA, n) ==
  LET c == C(G, n)[1]
  IN ((UNION {Fo[d] : d \in Dominators(G, V, RA, n)}) \ F[c]) \ Fo[c]

LoopNodes(G) == {n \in Nodes(G) : K(G, n) \in {"star", "plus", "opt"} /\ C(G, n) # <<>>}

(***************************************************************************)
(* Rule-node elision (C05): whether the elision operator `^` is visited on *)
(* no, some or every derivation of a construct.  Outcomes(n) is the set of *)
(* possible answers to "was `^` visited while deriving n".                 *)
(***************************************************************************)
RECURSIVE ElideOutcomes(_, _)
OrProduct(A, B) == {a \/ b : a \in A, b \in B}
RECURSIVE CatOutcomes(_, _, _)
CatOutcomes(G, cs, i) ==
  IF i > Len(cs) THEN {FALSE} ELSE OrProduct(ElideOutcomes(G, cs[i]), CatOutcomes(G, cs, i + 1))
ElideOutcomes(G, n) ==
  LET k == K(G, n)  c == C(G, n) IN
  CASE k = "elide" -> {TRUE}
    [] k = "cat" -> CatOutcomes(G, c, 1)
    [] k \in {"alt", "oc"} -> UNION {ElideOutcomes(G, c[i]) : i \in DOMAIN c}
    [] k \in {"opt", "star"} -> IF c = <<>> THEN {FALSE} ELSE {FALSE} \cup ElideOutcomes(G, c[1])
    [] k \in {"plus", "paren"} -> IF c = <<>> THEN {FALSE} ELSE ElideOutcomes(G, c[1])
    [] OTHER -> {FALSE}
ElisionClass(G, n) ==
  LET o == ElideOutcomes(G, n) IN
  IF o = {FALSE} THEN "none" ELSE IF o = {TRUE} THEN "uncond" ELSE "cond"

(***************************************************************************)
(* Binding powers of a Pratt rule (C07): a branch introduced earlier binds *)
(* tighter than every later one; within a branch the left power is below   *)
(* the right power unless the branch is right-associative.                  *)
(* bp : sequence of <<left, right>> for the recursive branches in order,    *)
(* ra : sequence of BOOLEAN (right-associative).                            *)
(***************************************************************************)
Max2(a, b) == IF a > b THEN a ELSE b
Min2(a, b) == IF a < b THEN a ELSE b
BindingPowersOK(bp, ra) ==
  /\ \A i \in DOMAIN bp : IF ra[i] THEN bp[i][1] > bp[i][2] ELSE bp[i][1] < bp[i][2]
  /\ \A i, j \in DOMAIN bp : i < j => Min2(bp[i][1], bp[i][2]) > Max2(bp[j][1], bp[j][2])

(***************************************************************************)
(* Everything at once, so that a model can bind it to one constant.        *)
(***************************************************************************)
Analysis(G) ==
  LET P  == ParentMap(G)
      F  == First(G)
      Fo == Follow(G, P, F)
      Pd == Predict(G, F, Fo)
  IN [parent |-> P, first |-> F, follow |-> Fo, predict |-> Pd]

=============================================================================
