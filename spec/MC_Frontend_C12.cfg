INIT JInit
NEXT JNext
INVARIANT JudgeC12
CHECK_DEADLOCK FALSE
