------------------------------ MODULE MC_Codegen ------------------------------
(* C11 judge: one state per grammar; rec = [g: machine-format grammar, accepted, compiled,
   written, graphok, exit].  Contract clauses are judged on what the real tool and rustc did;
   the scoping model classifies a non-compiling parser by cause. *)
EXTENDS Codegen, Json, IOUtils
Recs == ndJsonDeserialize(IOEnv.RFILE)
VARIABLE i
Init == i \in 1..Len(Recs)
Next == UNCHANGED i
Say(why, cause) == PrintT("V|" \o ToJson([i |-> i, why |-> why, cause |-> cause]))
JudgeC11 ==
  LET r == Recs[i] IN
  /\ (r.accepted /\ r.written /\ ~r.compiled) =>
        Say("not_compiling", IF r.hasg THEN Predict(r.g) ELSE {"no_model"})
  /\ (r.accepted /\ ~r.written) => Say("accepted_but_nothing_written", {})
  /\ (~r.accepted /\ r.written) => Say("rejected_but_written", {})
  /\ (r.accepted /\ ~r.graphok) => Say("graph_output_failed", {})
  /\ (r.accepted /\ r.codegen_panic) => Say("codegen_panic", {})
  \* model drift (not an alarm): a grammar of the error-code family is not rejected with its code
  /\ (r.expect # "" /\ ~(\E k \in DOMAIN r.codes : r.codes[k] = r.expect)) =>
        PrintT("DRIFT|" \o ToJson([i |-> i, cause |-> {"expected_code_missing"}]))
  \* model drift (not an alarm): the scoping model predicts failure but rustc accepted
  /\ (r.accepted /\ r.compiled /\ r.hasg /\ ~ScopeOK(r.g)) => PrintT("DRIFT|" \o ToJson([i |-> i, cause |-> Predict(r.g)]))
=============================================================================
