------------------------------ MODULE Trace_Cli ------------------------------
(***************************************************************************)
(* Trace validation for C19: TLC judges transitions RECORDED FROM THE REAL *)
(* llw BINARY (lib/p6.py: scratch directory, snapshot of names + bytes +   *)
(* mtimes before and after, exit status, stderr) against the contract      *)
(* clauses of Cli.tla.  One state per recorded transition:                 *)
(*    fs = abstract pre-state, last = flags, res = OBSERVED result.        *)
(* The environment variable TRACE names an ndjson file with one record     *)
(*   {id, pre: FsType, fl: Flags, res: {exit, wrote: [names], err}, post}  *)
(* per line.                                                               *)
(*   "BAD|{id, clause}"   a clause of the contract fails on real behaviour *)
(*                        (the alarm; the invariants stay TRUE so that one *)
(*                        run reports every failure)                       *)
(*   "DRIFT|{id, ...}"    the contract may hold but the real result or the *)
(*                        real post-state differs from the machine of      *)
(*                        Cli.tla (intended design): counted, no alarm     *)
(***************************************************************************)
EXTENDS Cli, Json, IOUtils, TLC

T == ndJsonDeserialize(IOEnv.TRACE)

SetOf(s) == {s[i] : i \in DOMAIN s}

Observed(t) == [exit |-> t.res.exit, wrote |-> SetOf(t.res.wrote), err |-> t.res.err]

TInit ==
  \E i \in 1..Len(T) :
    /\ fs = T[i].pre
    /\ last = T[i].fl
    /\ res = Observed(T[i])
    /\ step = i
    /\ hist = <<>>

TNext == UNCHANGED vars

Judge ==
  \A k \in DOMAIN ClauseNames :
    \/ Clause(ClauseNames[k], fs, last, res)
    \/ PrintT("BAD|" \o ToJson([id |-> T[step].id, clause |-> ClauseNames[k]]))

Conform ==
  LET e == Effect(fs, last)
      p == Apply(fs, e.wrote)
  IN \/ /\ e = res
        /\ p = T[step].post
        /\ FormatExitRule(fs, last, res)
     \/ PrintT("DRIFT|" \o ToJson([id |-> T[step].id,
                                   res |-> (e = res), post |-> (p = T[step].post),
                                   fmtexit |-> FormatExitRule(fs, last, res),
                                   spec |-> e]))

=============================================================================
