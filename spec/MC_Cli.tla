------------------------------- MODULE MC_Cli -------------------------------
(***************************************************************************)
(* Model of Cli.tla for TLC: all initial directories x all flag            *)
(* combinations x histories of MaxSteps invocations.                       *)
(*                                                                         *)
(* The history variables (res, last, hist) are kept out of the fingerprint *)
(* by VIEW MCView: a state is (fs, step).  TLC still generates EVERY       *)
(* successor of every distinct state, checks the action properties on each *)
(* of them and - when the environment variable CLI_EMIT is set - prints    *)
(* each as one JSON line                                                   *)
(*   "TR|{h: <<earlier steps>>, pre, fl, res, post}"                       *)
(* which the harness (lib/p6.py) replays into the real llw binary.  Since  *)
(* the effect of an invocation depends on fs only, every distinct          *)
(* (pre-state, flags) transition of every history of length <= MaxSteps    *)
(* is printed exactly once, together with one witness history reaching it. *)
(***************************************************************************)
EXTENDS Cli, Json, TLC, IOUtils

MCView == <<fs, step>>

EmitOn == "CLI_EMIT" \in DOMAIN IOEnv

Emit ==
  IF EmitOn
  THEN PrintT("TR|" \o ToJson([h |-> hist, pre |-> fs, fl |-> last', res |-> res', post |-> fs']))
  ELSE TRUE

MCNext == Next /\ Emit

\* MC_Cli_Mutant.cfg: one switch named by the environment (spec-level mutants)
EnvSwitches == {IOEnv.CLI_SWITCH}

=============================================================================
