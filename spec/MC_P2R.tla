------------------------------- MODULE MC_P2R -------------------------------
(***************************************************************************)
(* C08, two-run theorem against the reference semantics: for every         *)
(* recorded run of the real parser there must be a choice of alternatives  *)
(* such that the reference run (ParserMachine!StepRef: the chosen          *)
(* alternative is executed directly, nothing is ever undone) ends with the *)
(* same tree and the same diagnostics.  TLC searches the choices           *)
(* nondeterministically; a behaviour that matches prints "MATCH|i".        *)
(***************************************************************************)
EXTENDS Naturals, Sequences, FiniteSets, TLC, Json, IOUtils

MCG == ndJsonDeserialize(IOEnv.GFILE)[1]
Recs == ndJsonDeserialize(IOEnv.RFILE)

INSTANCE ParserMachine WITH G <- MCG, AsBuilt <- {}

VARIABLES i, s

Init == /\ i \in 1..Len(Recs)
        /\ s = Init0(Recs[i].w, Recs[i].en, Recs[i].s)

Next == /\ ~Done(s)
        /\ i' = i
        /\ IF AtChoice(s) THEN \E j \in RefOptions(s) : s' = StepRef(s, j)
           ELSE s' = Step(s)

Match ==
  (Done(s) /\ s.status = "done" /\ s.nodes = Recs[i].flat /\ s.diags = Recs[i].dl)
     => PrintT("MATCH|" \o ToJson([i |-> i]))

Fuel == s.steps <= 40 * (Len(MCG.nodes) + 6) * (Len(s.w) + 2)
=============================================================================
