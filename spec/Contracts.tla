------------------------------ MODULE Contracts ------------------------------
(***************************************************************************)
(* Contract layer for generated parsers (component B): each property is a  *)
(* predicate over (G, recorded outcome) so that the same operator judges   *)
(* the outcome of the machine specification and the outcome recorded from  *)
(* the real generated parser.  Nothing here depends on how lelwel parses.  *)
(*                                                                         *)
(* An outcome o is a record                                                *)
(*   en    entry point: 0 = start rule, k = k-th part                      *)
(*   w     input, a sequence of token names ("Error" = lexer error token)  *)
(*   s     predicate/assertion outcomes in call order                      *)
(*   panic, walkpanic                                                      *)
(*   flat  the node vector: <<"r", kind, offset>> | <<"t", token, index>>  *)
(*   tree  the same tree read through children()/get()/span():             *)
(*           [r, lo, hi, c] | [t, i, lo, hi]                               *)
(*   diags <<lo, hi, message>>                                             *)
(*   ev    callback events (create / delete / pred / act / assert / diag)  *)
(*   sigs  shapes of all rule nodes of the final tree (for C02)            *)
(***************************************************************************)
EXTENDS Grammar

SkipSet(G) == SeqToSet(G.skip) \cup {"Error"}

IsLeaf(t) == "t" \in DOMAIN t

RECURSIVE LeavesOf(_), LeavesOfSeq(_, _)
LeavesOf(t) == IF IsLeaf(t) THEN <<t>> ELSE LeavesOfSeq(t.c, 1)
LeavesOfSeq(cs, i) == IF i > Len(cs) THEN <<>> ELSE LeavesOf(cs[i]) \o LeavesOfSeq(cs, i + 1)

(***************************************************************************)
(* C03 - the parser returned a tree that can be walked.                    *)
(***************************************************************************)
Returned(o) == o.panic = "" /\ ~o.walkpanic

(***************************************************************************)
(* C01 - a depth-first walk visits every input token exactly once, in      *)
(* input order, each with its original span.                               *)
(***************************************************************************)
Lossless(o) ==
  /\ Returned(o)
  /\ LET ls == LeavesOf(o.tree) IN
     /\ Len(ls) = Len(o.w)
     /\ \A k \in 1..Len(ls) :
          /\ ls[k].t = o.w[k]
          /\ ls[k].i = k - 1
          /\ ls[k].lo = k - 1
          /\ ls[k].hi = k

(***************************************************************************)
(* C02 - structural well-formedness.                                       *)
(***************************************************************************)
FlatOK(flat) ==
  /\ Len(flat) >= 1
  /\ flat[1][1] = "r"
  /\ 1 + flat[1][3] = Len(flat)
  /\ \A i \in 1..Len(flat) :
       flat[i][1] = "r" =>
         /\ i + flat[i][3] <= Len(flat)
         /\ \A j \in (i + 1)..(i + flat[i][3]) :
              flat[j][1] = "r" => j + flat[j][3] <= i + flat[i][3]

RECURSIVE SpansOK(_)
SpansOK(t) ==
  IF IsLeaf(t) THEN t.lo <= t.hi
  ELSE /\ t.lo <= t.hi
       /\ \A k \in 1..Len(t.c) :
            /\ t.lo <= t.c[k].lo /\ t.c[k].hi <= t.hi
            /\ k < Len(t.c) => t.c[k].hi <= t.c[k + 1].lo
            /\ SpansOK(t.c[k])

RECURSIVE TriviaOK(_, _, _)
\* no rule node other than the root starts or ends with a skipped token (child level)
TriviaOK(G, t, isroot) ==
  IF IsLeaf(t) THEN TRUE
  ELSE /\ (~isroot /\ t.c # <<>>) =>
            /\ ~(IsLeaf(t.c[1]) /\ t.c[1].t \in SkipSet(G))
            /\ ~(IsLeaf(t.c[Len(t.c)]) /\ t.c[Len(t.c)].t \in SkipSet(G))
       /\ \A k \in 1..Len(t.c) : TriviaOK(G, t.c[k], FALSE)

\* the tree read through the API is the tree the vector encodes
RECURSIVE TreeSize(_)
TreeSize(t) == IF IsLeaf(t) THEN 1
               ELSE 1 + (LET RECURSIVE S(_) S(k) == IF k > Len(t.c) THEN 0 ELSE TreeSize(t.c[k]) + S(k + 1) IN S(1))

IsCreate(e) == e.e = "create"
IsDelete(e) == e.e = "delete"

\* Every announced node has the announced kind and a complete subtree: the shape seen at
\* callback time is a shape of the final tree, unless the node was discarded by backtracking
\* (then a later deleted-callback of the same kind accounts for it).
CreatedOK(o) ==
  \A k \in 1..Len(o.ev) :
    IsCreate(o.ev[k]) =>
      /\ o.ev[k].kindok
      /\ \/ o.ev[k].sig \in SeqToSet(o.sigs)
         \/ \E j \in (k + 1)..Len(o.ev) : IsDelete(o.ev[j]) /\ o.ev[j].kind = o.ev[k].kind

WellFormed(G, o) ==
  /\ Returned(o)
  /\ FlatOK(o.flat)
  /\ TreeSize(o.tree) = Len(o.flat)
  /\ SpansOK(o.tree)
  /\ TriviaOK(G, o.tree, TRUE)
  /\ CreatedOK(o)

(***************************************************************************)
(* C16 - skipped tokens are transparent.  `o` is the run on w, `so` the    *)
(* run on w with skipped and Error tokens removed, same outcome script.    *)
(***************************************************************************)
RECURSIVE StripTree(_, _), StripSeq(_, _, _)
\* tree without skipped leaves, spans and indices (names and shape only)
StripTree(G, t) ==
  IF IsLeaf(t) THEN <<"t", t.t>> ELSE <<"r", t.r, StripSeq(G, t.c, 1)>>
StripSeq(G, cs, i) ==
  IF i > Len(cs) THEN <<>>
  ELSE IF IsLeaf(cs[i]) /\ cs[i].t \in SkipSet(G) THEN StripSeq(G, cs, i + 1)
  ELSE <<StripTree(G, cs[i])>> \o StripSeq(G, cs, i + 1)

\* number of non-skipped tokens strictly before offset p (offset = token index here)
NonSkipBefore(G, w, p) == Cardinality({k \in 1..Len(w) : k <= p /\ w[k] \notin SkipSet(G)})

MapDiag(G, w, d) == <<NonSkipBefore(G, w, d[1]), NonSkipBefore(G, w, d[2]), d[3]>>

\* k-th (0-based) non-skipped token at index >= pos (0-based), "EOF..." when there is none
RECURSIVE PeekAt(_, _, _, _, _)
PeekAt(G, w, pos, k, eoi) ==
  IF pos + 1 > Len(w) THEN eoi
  ELSE IF w[pos + 1] \in SkipSet(G) THEN PeekAt(G, w, pos + 1, k, eoi)
  ELSE IF k = 0 THEN w[pos + 1] ELSE PeekAt(G, w, pos + 1, k - 1, eoi)

RECURSIVE PeekLeftAt(_, _, _, _, _)
\* k-th non-skipped token at index <= pos going left (the implementation's peek_left)
PeekLeftAt(G, w, pos, k, eoi) ==
  IF pos < 0 THEN eoi
  ELSE IF pos + 1 > Len(w) THEN PeekLeftAt(G, w, pos - 1, k, eoi)
  ELSE IF w[pos + 1] \in SkipSet(G) THEN PeekLeftAt(G, w, pos - 1, k, eoi)
  ELSE IF k = 0 THEN w[pos + 1] ELSE PeekLeftAt(G, w, pos - 1, k - 1, eoi)

EoiOf(G, o) == IF o.en = 0 THEN "EOF" ELSE G.parts[o.en].mark

PeeksOK(G, o) ==
  \A k \in 1..Len(o.ev) :
    o.ev[k].e = "pred" =>
      /\ \A j \in 1..Len(o.ev[k].peek) :
           /\ o.ev[k].peek[j] \notin SkipSet(G)
           /\ o.ev[k].peek[j] = PeekAt(G, o.w, o.ev[k].pos, j - 1, EoiOf(G, o))
      /\ \A j \in 1..Len(o.ev[k].left) : o.ev[k].left[j] \notin SkipSet(G)

\* (runs that did not return a tree are C03's and C01's business)
SkipTransparent(G, o, so) ==
  \/ ~Returned(o)
  \/ ~Returned(so)
  \/ /\ StripTree(G, o.tree) = StripTree(G, so.tree)
     /\ Len(o.diags) = Len(so.diags)
     /\ \A k \in 1..Len(o.diags) : MapDiag(G, o.w, o.diags[k]) = so.diags[k]
     /\ PeeksOK(G, o)

=============================================================================
