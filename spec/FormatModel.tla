----------------------------- MODULE FormatModel -----------------------------
(***************************************************************************)
(* The grammar-file formatter (src/backend/format.rs on top of the         *)
(* third-party layout engine dprint-core), specified by its CONTRACT:      *)
(* whatever layout it chooses, the formatted text f(x) must say the same   *)
(* as x (C17) and must be a fixed point of f (C18).                        *)
(*                                                                         *)
(*  (a) Items  - the lexical items of the grammar language                 *)
(*  (b) Gaps   - layout classes between two items, comments in gaps        *)
(*  (c) the contract predicates over a recorded triple (x, f(x), f(f(x)))  *)
(*  (d) the layout DOMAIN: small valid grammars (skeletons) in every       *)
(*      layout that deviates from the plain one in at most K gaps          *)
(*                                                                         *)
(* The layout engine itself is NOT modelled: it is observed.  The model    *)
(* says which texts must be tried and what must hold of the outputs.       *)
(***************************************************************************)
EXTENDS Naturals, Sequences, FiniteSets, TLC

(***************************************************************************)
(* (a) Items.  Kind names are those of frontend/lexer.rs; Spell gives the  *)
(* canonical spelling used by the skeletons.                               *)
(***************************************************************************)
Spell == [
  Token |-> "token", Start |-> "start", Right |-> "right", Skip |-> "skip", Part |-> "part",
  Colon |-> ":", Semi |-> ";", Equal |-> "=", LPar |-> "(", RPar |-> ")",
  LBrak |-> "[", RBrak |-> "]", Or |-> "|", Star |-> "*", Plus |-> "+",
  Hat |-> "^", Tilde |-> "~", And |-> "&", Slash |-> "/",
  Id |-> "a", Str |-> "'x'", Predicate |-> "?1", Action |-> "#1", Assertion |-> "!1",
  NodeRename |-> "@x", NodeMarker |-> "<1", NodeCreation |-> "1>x",
  LineComment |-> "// c", DocComment |-> "/// d", BlockComment |-> "/* b */" ]

Kinds        == DOMAIN Spell
CommentKinds == {"LineComment", "DocComment", "BlockComment"}
LineKinds    == {"LineComment", "DocComment"}   \* need a line break after them
Keywords     == {"Token", "Start", "Right", "Skip", "Part"}
ItemKinds    == Kinds \ CommentKinds

\* with the canonical spellings: kinds whose text ends / starts with an identifier character
EndsWord   == Keywords \cup {"Id", "Predicate", "Action", "Assertion", "NodeRename",
                             "NodeMarker", "NodeCreation"}
StartsWord == Keywords \cup {"Id", "NodeCreation"}

\* a and b (kinds, or "BOF"/"EOF") may not touch: gluing them would change the token sequence
NeedSep(a, b) ==
  \/ a \in EndsWord /\ b \in StartsWord
  \/ a = "Slash" /\ b \in ({"Slash", "Star"} \cup CommentKinds)   \* "//", "/*", "///"

(***************************************************************************)
(* (b) Gaps.  A gap is what stands between two neighbouring items (or      *)
(* before the first / after the last): white space of one of five classes, *)
(* optionally with ONE comment in it (white space before and after).       *)
(***************************************************************************)
GapClasses == {"none", "space", "newline", "blank", "indent"}
GapText    == [none |-> "", space |-> " ", newline |-> "\n", blank |-> "\n\n", indent |-> "\n    "]
BreakClasses == {"newline", "blank", "indent"}
NoComment  == "-"

\* gap option: white space, or white space - comment - white space
Plain(pre)          == [pre |-> pre, c |-> NoComment, post |-> "none"]
WithC(pre, c, post) == [pre |-> pre, c |-> c, post |-> post]

GapString(g) ==
  GapText[g.pre] \o (IF g.c = NoComment THEN "" ELSE Spell[g.c] \o GapText[g.post])

\* is option g legal between items of kinds a and b ?
LegalGap(a, b, g) ==
  IF g.c = NoComment
  THEN g.post = "none" /\ (g.pre = "none" => ~NeedSep(a, b))
  ELSE /\ g.pre = "none" => ~NeedSep(a, g.c)
       /\ g.c \in LineKinds => g.post \in BreakClasses    \* a line comment ends at the line end
       /\ g.post = "none" => ~NeedSep(g.c, b)

OptsFull ==
  {Plain(p) : p \in GapClasses} \cup
  {WithC(p, c, q) : p \in GapClasses, c \in LineKinds, q \in BreakClasses} \cup
  {WithC(p, "BlockComment", q) : p \in GapClasses, q \in GapClasses}

OptsMed ==
  {Plain(p) : p \in GapClasses} \cup
  {WithC("space", "LineComment", "newline"), WithC("none", "LineComment", "newline"),
   WithC("newline", "LineComment", "newline"), WithC("newline", "LineComment", "indent"),
   WithC("space", "DocComment", "newline"), WithC("newline", "DocComment", "newline"),
   WithC("space", "BlockComment", "space"), WithC("newline", "BlockComment", "newline"),
   WithC("none", "BlockComment", "none")}

OptsSmall ==
  {Plain("none"), Plain("newline"),
   WithC("space", "LineComment", "newline"), WithC("space", "BlockComment", "space")}

(***************************************************************************)
(* (d) Skeletons: small syntactically valid grammar files as sequences of  *)
(* <<kind, text>>; together they use every item kind and every             *)
(* declaration form of frontend/lelwel.llw.                                *)
(***************************************************************************)
I(k)  == <<k, Spell[k]>>
N(x)  == <<"Id", x>>

LongIds(n) == [i \in 1 .. n |-> N("T" \o ToString(9 + i))]

Skeletons == <<
  \* 1  s: A B;
  << N("s"), I("Colon"), N("A"), N("B"), I("Semi") >>,
  \* 2  s: A | B | C;
  << N("s"), I("Colon"), N("A"), I("Or"), N("B"), I("Or"), N("C"), I("Semi") >>,
  \* 3  s: (A / B) C;
  << N("s"), I("Colon"), I("LPar"), N("A"), I("Slash"), N("B"), I("RPar"), N("C"), I("Semi") >>,
  \* 4  s: [A] B* C+;
  << N("s"), I("Colon"), I("LBrak"), N("A"), I("RBrak"), N("B"), I("Star"), N("C"), I("Plus"), I("Semi") >>,
  \* 5  token A='x' B; start s;
  << I("Token"), N("A"), I("Equal"), I("Str"), N("B"), I("Semi"), I("Start"), N("s"), I("Semi") >>,
  \* 6  right A 'x'; skip A; part s t;
  << I("Right"), N("A"), I("Str"), I("Semi"), I("Skip"), N("A"), I("Semi"),
     I("Part"), N("s"), N("t"), I("Semi") >>,
  \* 7  s^: A ~ B &;
  << N("s"), I("Hat"), I("Colon"), N("A"), I("Tilde"), N("B"), I("And"), I("Semi") >>,
  \* 8  s: ?1 A #1 !1 @x;
  << N("s"), I("Colon"), I("Predicate"), N("A"), I("Action"), I("Assertion"), I("NodeRename"), I("Semi") >>,
  \* 9  s: <1 A 1>x ^;
  << N("s"), I("Colon"), I("NodeMarker"), N("A"), I("NodeCreation"), I("Hat"), I("Semi") >>,
  \* 10 s: ; t: ();
  << N("s"), I("Colon"), I("Semi"), N("t"), I("Colon"), I("LPar"), I("RPar"), I("Semi") >>,
  \* 11 token A; s: A; t: A;
  << I("Token"), N("A"), I("Semi"), N("s"), I("Colon"), N("A"), I("Semi"),
     N("t"), I("Colon"), N("A"), I("Semi") >>,
  \* 12 s: (A | B)* [A | B];
  << N("s"), I("Colon"), I("LPar"), N("A"), I("Or"), N("B"), I("RPar"), I("Star"),
     I("LBrak"), N("A"), I("Or"), N("B"), I("RBrak"), I("Semi") >>,
  \* 13 s: A | B C / D;
  << N("s"), I("Colon"), N("A"), I("Or"), N("B"), N("C"), I("Slash"), N("D"), I("Semi") >>,
  \* 14 token T10 T11 ... T33 Z;   (longer than the formatter's line width of 100: the engine must wrap)
  << I("Token") >> \o LongIds(24) \o << N("Z"), I("Semi") >>,
  \* 15 s: T10 T11 ... T33 Z;
  << N("s"), I("Colon") >> \o LongIds(24) \o << N("Z"), I("Semi") >>
>>
NSmall == 13      \* skeletons 1..NSmall get the full layout bounds, the long ones one deviating gap

\* gap positions of a skeleton with n items: 0 (before the first item) .. n (after the last)
Positions(sk) == 0 .. Len(sk)
KindAt(sk, p) == IF p = 0 THEN "BOF" ELSE sk[p][1]                \* left neighbour of gap p
KindAfter(sk, p) == IF p = Len(sk) THEN "EOF" ELSE sk[p + 1][1]   \* right neighbour of gap p

\* the plain layout: one space between items, nothing before, a line break at the end
Default(sk, p) == IF p = 0 THEN Plain("none") ELSE IF p = Len(sk) THEN Plain("newline") ELSE Plain("space")

Legal(sk, p, g) == LegalGap(KindAt(sk, p), KindAfter(sk, p), g)

\* a layout = the plain layout overridden at the positions of dev (a function P -> options)
GapAt(sk, dev, p) == IF p \in DOMAIN dev THEN dev[p] ELSE Default(sk, p)

RECURSIVE Cat(_)
Cat(s) == IF s = <<>> THEN "" ELSE Head(s) \o Cat(Tail(s))

Text(sk, dev) ==
  Cat([k \in 1 .. (2 * Len(sk) + 1) |->
         IF k % 2 = 1 THEN GapString(GapAt(sk, dev, (k - 1) \div 2)) ELSE sk[k \div 2][2]])

\* all deviations of at most K gaps with options from Opts
RECURSIVE SubsetsUpTo(_, _)      \* the subsets of S with at most K elements
SubsetsUpTo(S, K) ==
  IF K = 0 THEN {{}}
  ELSE LET R == SubsetsUpTo(S, K - 1) IN R \cup { T \cup {x} : T \in R, x \in S }

Deviations(sk, K, Opts) ==
  UNION { { d \in [P -> Opts] : \A p \in P : d[p] # Default(sk, p) /\ Legal(sk, p, d[p]) }
          : P \in SubsetsUpTo(Positions(sk), K) }

\* the same option in every gap where it is legal ("comments in every gap at once")
Uniform(sk, g) == [p \in { q \in Positions(sk) : Legal(sk, q, g) /\ g # Default(sk, q) } |-> g]

(***************************************************************************)
(* (c) The contract.  A record r is what the harness observed for one      *)
(* text x:                                                                 *)
(*   toks_x, toks_f1 : sequences of <<kind, text>> of the non-white-space  *)
(*       tokens (comments included) of x and of f1 = f(x).  NORMALISATION: *)
(*       the lexer makes the terminating "\n" part of a line / doc comment *)
(*       token and the formatter re-emits that newline as layout, so the   *)
(*       harness strips that one trailing "\n" from LineComment /          *)
(*       DocComment texts on BOTH sides; nothing else is normalised.       *)
(*   x_nows, f1_nows : x and f1 with the lexer's white space characters    *)
(*       (space, tab, CR, LF, FF) removed (SHA-256 digests for long texts) *)
(*   f1, f2 : f(x), f(f(x)) (digests for long texts)                       *)
(*   nsyn_x, nsyn_f1 : number of syntax diagnostics                        *)
(*   sema_x, sema_f1 : <<code, construct text without white space>> per    *)
(*       semantic diagnostic, in report order                              *)
(*   panic : "" or the stage that panicked                                 *)
(***************************************************************************)
NoPanic(r) == r.panic = ""

TokTexts(ts) == [k \in DOMAIN ts |-> ts[k][2]]

\* character level, for EVERY text; the token text sequences are compared by TLC as well
\* whenever x is syntactically valid (for broken texts token boundaries may legitimately move)
SameChars(r) ==
  /\ r.x_nows = r.f1_nows
  /\ r.nsyn_x = 0 => TokTexts(r.toks_x) = TokTexts(r.toks_f1)

SameTokens(r)        == r.toks_x = r.toks_f1
NoNewSyntaxErrors(r) == r.nsyn_x = 0 => r.nsyn_f1 = 0
SameSema(r)          == r.sema_x = r.sema_f1
Idempotent(r)        == r.f2 = r.f1

\* C17 for one record: the first failing clause, or "" when the contract holds
C17Why(r) ==
  IF ~NoPanic(r) THEN "panic"
  ELSE IF r.x_nows # r.f1_nows THEN "chars"
  ELSE IF r.nsyn_x # 0 THEN ""                 \* remaining clauses need a valid file
  ELSE IF ~SameTokens(r) THEN "tokens"
  ELSE IF ~SameChars(r) THEN "chars"
  ELSE IF ~NoNewSyntaxErrors(r) THEN "syntax"
  ELSE IF ~SameSema(r) THEN "sema"
  ELSE ""

\* C18 for one record.  It quantifies over syntactically valid texts x for which f(x) exists:
\* a panic while producing f(x) is C17's business (there is nothing to format again), a panic
\* while reading or formatting f(x) is a failure of C18.
FirstStages == {"lex", "parse", "format1"}
C18Why(r) ==
  IF r.panic \in FirstStages \/ r.nsyn_x # 0 THEN ""
  ELSE IF ~NoPanic(r) THEN "panic2"            \* formatting the formatter's output panicked
  ELSE IF ~Idempotent(r) THEN "nonidempotent"
  ELSE ""

\* command line clause of C18: c0 / c1 = exit status of `llw -f -c` before / after `llw -f`,
\* w = file content after `llw -f`, wexit = exit status of `llw -f`
CliWhy(r) ==
  IF (r.cli.c0 = 0) # (r.x = r.f1) THEN "cli_check_before"
  ELSE IF r.cli.wexit # 0 \/ r.cli.w # r.f1 THEN "cli_write"
  ELSE IF (r.cli.c1 = 0) # (r.f2 = r.f1) THEN "cli_check_after"
  ELSE ""
=============================================================================
