CONSTANTS
 MaxOps = 9
 MaxToks = 3
 AllowBelowSnapshot = FALSE
INIT Init
NEXT Next
INVARIANT Refines
INVARIANT NoPanic
INVARIANT LeavesInOrder
INVARIANT ClosedNodesTrimmed
INVARIANT Emit
CHECK_DEADLOCK FALSE
