---------------------------- MODULE ParserMachine ----------------------------
(***************************************************************************)
(* Machine-level specification of the parsers lelwel generates (component  *)
(* B of DESIGN.md): the runtime of src/skeleton/generated.rs transcribed   *)
(* primitive by primitive, and the control flow that src/backend/rust.rs   *)
(* emits for every regex kind, as ONE pure step function over a grammar    *)
(* given as data.  Step(s) interprets the grammar G the way the emitted    *)
(* Rust code would execute; the explicit frame stack replaces the Rust     *)
(* call stack with its locals (m, start, elide, node_kind, m<k>, lhs,      *)
(* min_bp, state).                                                         *)
(*                                                                         *)
(* G carries, besides its structure, the analysis results the emitted code *)
(* is built from (this is a model of the generated parser, not of the      *)
(* analysis): per node `first follow predict recovery el inchoice`, per    *)
(* rule `used inchoice hasrename hascreation el rec` (rec = recursive      *)
(* branches with their binding powers).                                    *)
(*                                                                         *)
(* Deviations of the pinned code from the intended design are selected by  *)
(* the constant AsBuilt:                                                   *)
(*   "ChoiceBreakLeavesFlag"   a successful non-last alternative leaves    *)
(*                             in_ordered_choice set (break skips reset)   *)
(*   "RestoreKeepsErrorState"  set_state does not restore error_node /     *)
(*                             error_since_advance                         *)
(***************************************************************************)
EXTENDS Naturals, Sequences, FiniteSets, TLC

CONSTANTS G, AsBuilt

SeqSet(q) == {q[i] : i \in DOMAIN q}
SkipToks == SeqSet(G.skip) \cup {"Error"}
NK(n) == G.nodes[n].k
NC(n) == G.nodes[n].c
RuleIdx(nm) == CHOOSE i \in 1..Len(G.rules) : G.rules[i].name = nm
InSet(t, q) == \E i \in DOMAIN q : q[i] = t
Last(q) == q[Len(q)]
Front(q) == SubSeq(q, 1, Len(q) - 1)

(***************************************************************************)
(* Events (history variable inside the state record).                      *)
(***************************************************************************)
Ev(e, str, num, b) == [e |-> e, s |-> str, n |-> num, b |-> b]
Emit(s, ev) == [s EXCEPT !.ev = Append(@, ev)]

(***************************************************************************)
(* Tree builder (CstData) - transcribed.  Marks are 0-based vector indices. *)
(***************************************************************************)
DataOpen(s) ==
  [s EXCEPT !.nodes = Append(@, <<"r", "error", 0>>), !.nsl = Len(s.nodes) + 1]

DataClose(s, mark, kind) ==
  LET len == s.nsl - 1 IN
  IF s.nsl = 0 \/ mark + 1 > Len(s.nodes) THEN [s EXCEPT !.status = "panic"]
  ELSE IF mark > len
       THEN [s EXCEPT !.nodes[mark + 1] = <<"r", kind, 0>>, !.nsl = s.nsl + (mark - len)]
       ELSE [s EXCEPT !.nodes[mark + 1] = <<"r", kind, len - mark>>]

DataCloseRoot(s, mark, kind) ==
  [s EXCEPT !.nodes[mark + 1] = <<"r", kind, Len(s.nodes) - 1 - mark>>]

DataAdvance(s, tok, skip) ==
  [s EXCEPT !.nodes = Append(@, <<"t", tok, s.tc>>), !.tc = @ + 1,
            !.nsl = IF skip THEN @ ELSE Len(s.nodes) + 1]

DataOpenBefore(s, mark) ==
  IF mark > Len(s.nodes) THEN [s EXCEPT !.status = "panic"]
  ELSE [s EXCEPT !.nodes = SubSeq(@, 1, mark) \o << <<"r", "error", 0>> >> \o SubSeq(@, mark + 1, Len(@)),
                 !.nsl = @ + 1]

(***************************************************************************)
(* Parser runtime - transcribed.                                           *)
(***************************************************************************)
ActiveError(s) == s.en # 0 \/ s.esa

CloseErr(s) ==
  IF s.en = 0 THEN s
  ELSE Emit([DataClose(s, s.en - 1, "error") EXCEPT !.en = 0], Ev("create", "error", s.en - 1, FALSE))

Open(s)  == DataOpen(CloseErr(s))            \* the new mark is Len(s.nodes)
Close(s, mark, kind) == DataClose(CloseErr(s), mark, kind)
OpenBefore(s, mark) == DataOpenBefore(CloseErr(s), mark)
MarkOf(s) == Len(s.nodes)                    \* value of mark(); the state is CloseErr(s)

SpanLo(s) == IF s.pos < Len(s.w) THEN s.pos ELSE Len(s.w)

\* err![..] evaluates create_diagnostic before error() decides whether to suppress
Error(s) ==
  LET s1 == Emit(s, Ev("diag", "", SpanLo(s), ActiveError(s))) IN
  IF ActiveError(s) THEN s1
  ELSE [s1 EXCEPT !.esa = TRUE, !.diags = Append(@, SpanLo(s))]

RECURSIVE SkipRun(_, _)
\* number of consecutive skipped tokens starting at 0-based index p
SkipRun(w, p) == IF p < Len(w) /\ w[p + 1] \in SkipToks THEN 1 + SkipRun(w, p + 1) ELSE 0

RECURSIVE PushSkips(_, _, _)
PushSkips(s, p, k) == IF k = 0 THEN s ELSE PushSkips(DataAdvance(s, s.w[p + 1], TRUE), p + 1, k - 1)

Advance(s, err) ==
  LET s1 == IF err THEN s ELSE [CloseErr(s) EXCEPT !.esa = FALSE]
      s2 == DataAdvance(s1, s1.cur, FALSE)
      k  == SkipRun(s.w, s.pos + 1)
      s3 == PushSkips(s2, s.pos + 1, k)
      np == s.pos + 1 + k
  IN [s3 EXCEPT !.pos = np, !.cur = IF np < Len(s.w) THEN s.w[np + 1] ELSE s.eoi]

InitSkip(s) ==
  LET k  == SkipRun(s.w, s.pos)
      s1 == PushSkips(s, s.pos, k)
      np == s.pos + k
  IN [s1 EXCEPT !.pos = np, !.cur = IF np < Len(s.w) THEN s.w[np + 1] ELSE s.eoi]

AdvErr(s) ==
  LET s1 == Error(s) IN
  IF s1.pos >= Len(s1.w) THEN s1
  ELSE LET s2 == IF s1.en = 0 THEN [DataOpen(s1) EXCEPT !.en = Len(s1.nodes) + 1] ELSE s1
       IN Advance(s2, TRUE)

GetState(s) == [pos |-> s.pos, cur |-> s.cur, nn |-> Len(s.nodes), tc |-> s.tc, nsl |-> s.nsl,
                nd |-> Len(s.diags), en |-> s.en, esa |-> s.esa]

RECURSIVE DeleteEvents(_, _, _)
DeleteEvents(s, i, n) ==
  IF i > n THEN s
  ELSE DeleteEvents(IF s.nodes[i][1] = "r" /\ InSet(s.nodes[i][2], G.delkinds) THEN Emit(s, Ev("delete", s.nodes[i][2], i - 1, FALSE)) ELSE s,
                    i + 1, n)

SetState(s, st) ==
  LET s1 == DeleteEvents(s, st.nn + 1, Len(s.nodes))
      s2 == [s1 EXCEPT !.pos = st.pos, !.cur = st.cur, !.diags = SubSeq(@, 1, st.nd),
                       !.nodes = SubSeq(@, 1, st.nn), !.tc = st.tc, !.nsl = st.nsl]
  IN IF "RestoreKeepsErrorState" \in AsBuilt
     THEN \* ghost: remember that the deviation changed something in this behaviour
          (IF s2.en # st.en \/ s2.esa # st.esa THEN [s2 EXCEPT !.dev = @ \cup {"RestoreKeepsErrorState"}] ELSE s2)
     ELSE [s2 EXCEPT !.en = st.en, !.esa = st.esa]

(***************************************************************************)
(* Frames.  Every frame has the same fields so that TLC sees uniform       *)
(* records: f kind, n node / rule index, pc, and four general registers.   *)
(*   rule : n = rule index, a = [m, start, elide, kind, marks], b = try?   *)
(*   rx   : n = node id, pc, a = scratch                                   *)
(*   oc   : n = node id, pc = alternative index, a = saved state           *)
(*   pratt: n = rule index, a = [minbp, lhs, kind, m, br, op, start, elide]*)
(***************************************************************************)
Frame(f, n, pc, a, b) == [f |-> f, n |-> n, pc |-> pc, a |-> a, b |-> b]
NoReg == [x \in {} |-> 0]

Push(s, fr) == [s EXCEPT !.stk = Append(@, fr)]
Pop(s) == [s EXCEPT !.stk = Front(@)]
Top(s) == Last(s.stk)
SetTop(s, fr) == [s EXCEPT !.stk[Len(s.stk)] = fr]
SetPc(s, pc) == [s EXCEPT !.stk[Len(s.stk)].pc = pc]

\* index of the frame holding the rule-level locals (elide, node_kind, m<k>, start, m):
\* the nearest rule or pratt frame
RECURSIVE LocalsIdx(_, _)
LocalsIdx(stk, i) == IF stk[i].f \in {"rule", "pratt"} THEN i ELSE LocalsIdx(stk, i - 1)
Locals(s) == s.stk[LocalsIdx(s.stk, Len(s.stk))].a
SetLocal(s, fld, v) ==
  LET i == LocalsIdx(s.stk, Len(s.stk)) IN [s EXCEPT !.stk[i].a[fld] = v]

RuleLocals(ri) == [m |-> 0, start |-> 0, elide |-> FALSE, kind |-> G.rules[ri].name,
                   marks |-> [x \in {} |-> 0], minbp |-> 0, lhs |-> 0, br |-> 0, op |-> 0, el |-> G.rules[ri].el,
                   rname |-> G.rules[ri].name, opened |-> FALSE]

\* name of the rule whose code is executing (for callback names)
CurRuleName(s) == Locals(s).rname

(***************************************************************************)
(* Outcome scripts: predicates and assertions consume the script in call   *)
(* order; an exhausted script answers FALSE.                               *)
(***************************************************************************)
NextBool(s) == IF s.script = <<>> THEN FALSE ELSE Head(s.script)
ConsumeBool(s) == [s EXCEPT !.script = IF @ = <<>> THEN @ ELSE Tail(@), !.used = Append(@, NextBool(s))]

(***************************************************************************)
(* Predicate of a branch: get_predicate of the back end.                   *)
(***************************************************************************)
RECURSIVE GuardOf(_)
\* 0 = no guard, otherwise the node id of the predicate
GuardOf(n) ==
  CASE NK(n) = "cat" -> IF NC(n) # <<>> /\ NK(NC(n)[1]) = "pred" THEN NC(n)[1] ELSE 0
    [] NK(n) = "paren" -> IF NC(n) # <<>> THEN GuardOf(NC(n)[1]) ELSE 0
    [] OTHER -> 0

\* evaluates the guard of branch n: returns <<state, holds>>
EvalGuard(s, n) ==
  LET g == GuardOf(n) IN
  IF g = 0 \/ G.nodes[g].num = "t" THEN <<s, TRUE>>
  ELSE LET v == NextBool(s)
           id == CurRuleName(s) \o "_" \o G.nodes[g].num
       IN <<Emit(ConsumeBool(s), Ev("pred", id, s.pos, v)), v>>

(***************************************************************************)
(* Failure: `return None` - unwinds to the closure of the innermost        *)
(* ordered-choice attempt in the same function, or out of the function;    *)
(* a caller that does not use `?` ignores the result.                      *)
(***************************************************************************)
RECURSIVE Unwind(_)
Unwind(s) ==
  IF s.stk = <<>> THEN [s EXCEPT !.status = "panic"]
  ELSE LET t == Top(s) IN
    CASE t.f = "oc" /\ t.b = "trying" ->
           \* the closure returned None: restore and go on with the next alternative
           LET s1 == SetState(s, t.a.state)
               li == LocalsIdx(s1.stk, Len(s1.stk))
               s2 == [s1 EXCEPT !.stk[li].a.elide = t.a.elide, !.stk[li].a.kind = t.a.kind]
           IN SetTop(s2, [t EXCEPT !.pc = t.pc + 1, !.b = "next"])
      [] t.f \in {"rule", "pratt"} ->
           \* the function returned None: propagate iff the call site uses `?`
           IF t.b THEN Unwind(Pop(s)) ELSE Pop(s)
      [] OTHER -> Unwind(Pop(s))

\* `[return None if in_ordered_choice]` at a site whose code is in a choice
MustFail(s, n) == G.nodes[n].inchoice /\ s.ioc

(***************************************************************************)
(* Rule prologue / epilogue (output_elision_init / output_elision_check).  *)
(***************************************************************************)
ElisionInit(s, el, hascreation) ==
  CASE el = "none" ->
         LET s1 == Open(s)
             s2 == SetLocal(SetLocal(s1, "m", Len(s.nodes)), "opened", TRUE)
         IN IF hascreation THEN SetLocal(s2, "start", MarkOf(s2)) ELSE s2
    [] el = "cond" ->
         LET s1 == CloseErr(s) IN SetLocal(SetLocal(s1, "start", MarkOf(s1)), "elide", FALSE)
    [] OTHER ->
         IF hascreation THEN LET s1 == CloseErr(s) IN SetLocal(s1, "start", MarkOf(s1)) ELSE s

CloseAnnounce(s, mark, kind) ==
  Emit(Close(s, mark, kind), Ev("create", kind, mark, FALSE))

ElisionCheck(s, el) ==
  LET L == Locals(s) IN
  CASE el = "none" -> CloseAnnounce(s, L.m, L.kind)
    [] el = "cond" ->
         IF L.elide THEN s
         ELSE LET s1 == OpenBefore(s, L.start) IN CloseAnnounce(s1, L.start, L.kind)
    [] OTHER -> s

(***************************************************************************)
(* Recursive branches of a Pratt rule.                                     *)
(***************************************************************************)
RecOf(ri, n) ==
  LET R == G.rules[ri].rec
      ix == {i \in DOMAIN R : R[i].node = n}
  IN IF ix = {} THEN [kind |-> "none", node |-> n, left |-> 0 - 1, right |-> 0 - 1, bp |-> <<0, 0>>]
     ELSE R[CHOOSE i \in ix : TRUE]

IsLeftBranch(ri, n) == RecOf(ri, n).kind \in {"left", "leftright"}
IsPratt(ri) == \E i \in DOMAIN G.rules[ri].rec : G.rules[ri].rec[i].kind \in {"left", "leftright"}
RequiresBp(ri) ==
  LET R == G.rules[ri].rec IN
  \/ \E i \in DOMAIN R : R[i].kind = "leftright"
  \/ (Len(R) > 1 /\ \E i \in DOMAIN R : R[i].kind = "right")

\* operands of a left-recursive branch that the loop arm executes: not predicates, not the left operand
ArmOps(ri, n) ==
  LET r == RecOf(ri, n)
      c == NC(n)
  IN SelectSeq([i \in DOMAIN c |-> <<i, c[i]>>], LAMBDA x : NK(x[2]) # "pred" /\ x[1] - 1 # r.left)

(***************************************************************************)
(* match arms of an alternation: first arm in order whose pattern contains *)
(* the current token and whose guard holds.  Returns <<state, index>>,     *)
(* index 0 = no arm.                                                       *)
(***************************************************************************)
RECURSIVE PickArm(_, _, _)
PickArm(s, brs, i) ==
  IF i > Len(brs) THEN <<s, 0>>
  ELSE IF InSet(s.cur, G.nodes[brs[i]].predict)
       THEN LET r == EvalGuard(s, brs[i]) IN
            IF r[2] THEN <<r[1], i>> ELSE PickArm(r[1], brs, i + 1)
       ELSE PickArm(s, brs, i + 1)

RECURSIVE AdvErrSet(_, _, _)
\* tokens predicted only by guarded branches (advance_error_set)
AdvErrSet(brs, i, acc) ==
  IF i > Len(brs) THEN acc
  ELSE AdvErrSet(brs, i + 1,
         IF GuardOf(brs[i]) = 0 THEN acc \ SeqSet(G.nodes[brs[i]].predict)
         ELSE acc \cup SeqSet(G.nodes[brs[i]].predict))

(***************************************************************************)
(* One step of a regex frame.                                              *)
(***************************************************************************)
PushRx(s, n) == Push(s, Frame("rx", n, 0, NoReg, FALSE))

CallRule(s, site, ri) ==
  \* self.rule_x(diags)[?]
  LET try == G.rules[ri].inchoice /\ (site # 0 /\ G.nodes[site].inchoice)
  IN Push(s, Frame("rule", ri, 0, RuleLocals(ri), try))

StepTok(s, n) ==
  IF s.cur = G.nodes[n].t THEN Pop(Advance(s, FALSE))
  ELSE IF MustFail(s, n) THEN Unwind(s)
  ELSE Pop(Error(s))

StepLoop(s, n) ==
  \* output_recovering_operation; pc: 0 = (plus) run the body first, 1 = test, 2 = body done
  LET t == Top(s)
      k == NK(n)
      body == NC(n)[1]
  IN
  IF t.pc = 0 THEN
       IF k = "plus" THEN PushRx(SetPc(s, 1), body) ELSE SetPc(s, 1)
  ELSE IF t.pc = 2 /\ k = "opt" THEN Pop(s)
  ELSE
    \* the match
    LET infirst == InSet(s.cur, G.nodes[body].first)
        r == IF infirst THEN EvalGuard(s, body) ELSE <<s, FALSE>>
        s1 == r[1]
    IN IF infirst /\ r[2] THEN PushRx(SetPc(s1, 2), body)
       ELSE IF InSet(s1.cur, G.nodes[n].follow) THEN Pop(s1)
       ELSE IF InSet(s1.cur, G.nodes[n].recovery) THEN
              IF MustFail(s1, n) THEN Unwind(s1) ELSE Pop(Error(s1))
       ELSE IF MustFail(s1, n) THEN Unwind(s1)
       ELSE SetPc(AdvErr(s1), 1)

StepAlt(s, n) ==
  LET t == Top(s) IN
  IF t.pc = 1 THEN Pop(s)
  ELSE LET brs == NC(n)
           r == PickArm(s, brs, 1)
           s1 == r[1]
       IN IF r[2] # 0 THEN PushRx(SetPc(s1, 1), brs[r[2]])
          ELSE IF s1.cur \in AdvErrSet(brs, 1, {}) THEN
                 IF MustFail(s1, n) THEN Unwind(s1) ELSE Pop(AdvErr(s1))
          ELSE IF MustFail(s1, n) THEN Unwind(s1) ELSE Pop(Error(s1))

StepOc(s, n) ==
  \* frame f = "oc": pc = index of the alternative to try next; b \in {"init","next","trying","last"}
  LET t == Top(s)
      alts == NC(n)
      last == Len(alts)
  IN
  CASE t.b = "init" ->
         LET L == Locals(s)
             s1 == [s EXCEPT !.ioc = TRUE]
         IN SetTop(s1, [t EXCEPT !.b = "next", !.pc = 1,
                               !.a = [state |-> GetState(s1), elide |-> L.elide, kind |-> L.kind]])
    [] t.b = "next" ->
         IF t.pc < last THEN
            IF InSet(s.cur, G.nodes[alts[t.pc]].predict)
            THEN PushRx(SetTop(s, [t EXCEPT !.b = "trying"]), alts[t.pc])
            ELSE SetPc(s, t.pc + 1)
         ELSE
            LET s1 == [s EXCEPT !.ioc = FALSE] IN
            IF InSet(s1.cur, G.nodes[alts[last]].predict)
            THEN PushRx(SetTop(s1, [t EXCEPT !.b = "last"]), alts[last])
            ELSE Pop(AdvErr(s1))
    [] t.b = "trying" ->
         \* the closure returned Some(()): break 'ordered_choice
         IF "ChoiceBreakLeavesFlag" \in AsBuilt THEN Pop(s) ELSE Pop([s EXCEPT !.ioc = FALSE])
    [] OTHER -> Pop(s)

StepRet(s, n) ==
  IF ~ActiveError(s) THEN Pop(s)
  ELSE LET L == Locals(s)
           s1 == CASE L.el = "none" -> Emit(Close(s, L.m, "error"), Ev("create", "error", L.m, FALSE))
                   [] L.el = "cond" ->
                        IF L.elide THEN s
                        ELSE LET s2 == OpenBefore(s, L.start) IN
                             Emit(Close(s2, L.start, "error"), Ev("create", "error", L.start, FALSE))
                   [] OTHER -> s
       \* in a function that returns Option the value is `if in_ordered_choice { None } else
       \* { Some(()) }`: outside an active attempt the return only leaves the current rule (F18;
       \* before the repair it was `None` and a caller's `?` dragged every enclosing rule that is
       \* shared with a choice out of its epilogue).  AsBuilt "ReturnAlwaysNone" is the old code.
       IN IF G.nodes[n].inchoice /\ (s.ioc \/ "ReturnAlwaysNone" \in AsBuilt) THEN Unwind(s1)
          ELSE \* plain `return;` leaves the function without its epilogue
               LET li == LocalsIdx(s1.stk, Len(s1.stk)) IN [s1 EXCEPT !.stk = SubSeq(@, 1, li - 1)]

StepCreate(s, n) ==
  LET L == Locals(s)
      num == G.nodes[n].num
      nm == IF G.nodes[n].name = "" THEN L.rname ELSE G.nodes[n].name
  IN IF num # "" /\ num \notin DOMAIN L.marks THEN [s EXCEPT !.status = "panic"]
     ELSE LET mark == IF num = "" THEN L.start ELSE L.marks[num]
              s1 == OpenBefore(s, mark)
              s2 == Close(s1, mark, nm)
              \* ghost: known protocol violations of the emitted code (DESIGN 10.3 F03, F12)
              below == \E k \in DOMAIN s.stk : s.stk[k].f = "oc" /\ s.stk[k].b = "trying" /\ s.stk[k].a.state.nn > mark
              stale == \E x \in DOMAIN L.marks : L.marks[x] > mark
              d == (IF below THEN {"CreateBelowSnapshot"} ELSE {}) \cup (IF stale THEN {"StaleInnerMark"} ELSE {})
          IN Pop(Emit([s2 EXCEPT !.dev = @ \cup d], Ev("create", nm, mark, FALSE)))

StepAssert(s, n) ==
  LET v == NextBool(s)
      id == CurRuleName(s) \o "_" \o G.nodes[n].num
      s1 == Emit(ConsumeBool(s), Ev("assert", id, s.pos, v))
  IN IF ~v THEN Pop(s1)
     ELSE IF MustFail(s1, n) THEN Unwind(s1)
     ELSE Pop([s1 EXCEPT !.esa = TRUE, !.diags = Append(@, SpanLo(s1))])

StepRx(s) ==
  LET t == Top(s)
      n == t.n
      k == NK(n)
  IN
  CASE k = "tok" -> StepTok(s, n)
    [] k = "ref" ->
         IF t.pc = 1 THEN Pop(s)
         ELSE CallRule(SetPc(s, 1), n, RuleIdx(G.nodes[n].r))
    [] k = "cat" ->
         IF t.pc >= Len(NC(n)) THEN Pop(s) ELSE PushRx(SetPc(s, t.pc + 1), NC(n)[t.pc + 1])
    [] k = "paren" ->
         IF t.pc = 1 \/ NC(n) = <<>> THEN Pop(s) ELSE PushRx(SetPc(s, 1), NC(n)[1])
    [] k = "alt" -> StepAlt(s, n)
    [] k \in {"opt", "star", "plus"} -> StepLoop(s, n)
    [] k = "oc" -> SetTop(s, Frame("oc", n, 1, NoReg, "init"))
    [] k = "pred" -> Pop(s)
    [] k = "act" -> Pop(Emit(s, Ev("act", CurRuleName(s) \o "_" \o G.nodes[n].num, s.pos, FALSE)))
    [] k = "assert" -> StepAssert(s, n)
    [] k = "rename" -> IF G.nodes[n].name = "" THEN Pop(s) ELSE Pop(SetLocal(s, "kind", G.nodes[n].name))
    [] k = "elide" -> IF Locals(s).el = "cond" THEN Pop(SetLocal(s, "elide", TRUE)) ELSE Pop(s)
    [] k = "mark" ->
         LET s1 == CloseErr(s)
             L == Locals(s1)
             num == G.nodes[n].num
         IN Pop(SetLocal(s1, "marks", [x \in (DOMAIN L.marks) \cup {num} |->
                                          IF x = num THEN MarkOf(s1) ELSE L.marks[x]]))
    [] k = "create" -> StepCreate(s, n)
    [] k = "commit" -> Pop([s EXCEPT !.ioc = FALSE])
    [] k = "ret" -> StepRet(s, n)
    [] OTHER -> [s EXCEPT !.status = "panic"]

(***************************************************************************)
(* Rule frames (output_rule / output_normal_rule).                         *)
(***************************************************************************)
StepRule(s) ==
  LET t == Top(s)
      ri == t.n
      R == G.rules[ri]
      isstart == R.name = G.start
  IN
  IF R.body = 0 THEN Pop(s)
  ELSE IF IsPratt(ri) THEN
       IF t.pc = 0 THEN
          LET s1 == CloseErr(s)
              fr == Frame("pratt", ri, 0, [RuleLocals(ri) EXCEPT !.lhs = MarkOf(s1), !.minbp = 0], R.inchoice)
          IN Push(SetPc(s1, 1), fr)
       ELSE Pop(s)
  ELSE
       IF t.pc = 0 THEN
          LET s1 == IF isstart
                    THEN (IF R.hascreation THEN LET c == CloseErr(s) IN SetLocal(c, "start", MarkOf(c)) ELSE s)
                    ELSE ElisionInit(s, R.el, R.hascreation)
          IN PushRx(SetPc(s1, 1), R.body)
       ELSE Pop(IF isstart THEN s ELSE ElisionCheck(s, R.el))

(***************************************************************************)
(* Pratt frames (output_left_recursive_rule): one activation of `rec`.     *)
(*   pc 0  nud match          pc 1  nud branch running (operand index op)  *)
(*   pc 2  loop match         pc 3  loop branch running                    *)
(* a.br = branch node, a.op = index of the next operand of the branch.     *)
(***************************************************************************)
NudBranches(ri) == SelectSeq(NC(G.rules[ri].body), LAMBDA x : ~IsLeftBranch(ri, x))
LedBranches(ri) == SelectSeq(NC(G.rules[ri].body), LAMBDA x : IsLeftBranch(ri, x))

RECURSIVE PickLed(_, _, _, _)
\* arms of the loop: pattern = predict of the first executed operand; guard of the branch
PickLed(s, ri, brs, i) ==
  IF i > Len(brs) THEN <<s, 0>>
  ELSE LET ops == ArmOps(ri, brs[i]) IN
       IF ops # <<>> /\ InSet(s.cur, G.nodes[ops[1][2]].predict)
       THEN LET r == EvalGuard(s, brs[i]) IN
            IF r[2] THEN <<r[1], i>> ELSE PickLed(r[1], ri, brs, i + 1)
       ELSE PickLed(s, ri, brs, i + 1)

CallRec(s, ri, minbp, lhs, try) ==
  Push(s, Frame("pratt", ri, 0, [RuleLocals(ri) EXCEPT !.lhs = lhs, !.minbp = minbp], try))

StepPratt(s) ==
  LET t == Top(s)
      ri == t.n
      R == G.rules[ri]
      A == t.a
      try == R.inchoice
  IN
  CASE t.pc = 0 ->
         \* let mut node_kind = Rule::X; match parser.current { nud arms }
         LET brs == NudBranches(ri)
             s0 == SetLocal(s, "kind", R.name)
             r == PickArm(s0, brs, 1)
             s1 == r[1]
         IN IF r[2] # 0 THEN
               LET b == brs[r[2]]
                   el == G.nodes[b].el
                   s2 == SetLocal(SetLocal(s1, "el", el), "br", b)
                   s3 == ElisionInit(s2, el, FALSE)
               IN SetPc(SetLocal(s3, "op", 1), 1)
            \* [return None if in_ordered_choice] - emitted when the rule is used in a choice
            ELSE IF R.inchoice /\ s1.ioc THEN Unwind(s1)
            ELSE IF s1.cur \in AdvErrSet(brs, 1, {}) THEN SetPc(AdvErr(s1), 2)
            ELSE SetPc(Error(s1), 2)
    [] t.pc = 1 ->
         \* body of the chosen nud branch
         LET b == A.br
             rc == RecOf(ri, b)
         IN IF rc.kind = "right" THEN
               \* operands of the concatenation in order; the recursive one calls rec
               IF A.op > Len(NC(b)) THEN SetPc(ElisionCheck(s, A.el), 2)
               ELSE IF A.op - 1 = rc.right THEN
                    LET s1 == CloseErr(SetLocal(s, "op", A.op + 1))
                    IN CallRec(s1, ri, rc.bp[1], MarkOf(s1), try)
               ELSE PushRx(SetLocal(s, "op", A.op + 1), NC(b)[A.op])
            ELSE
               IF A.op = 1 THEN PushRx(SetLocal(s, "op", 2), b)
               ELSE SetPc(ElisionCheck(s, A.el), 2)
    [] t.pc = 2 ->
         \* loop { node_kind = Rule::X; match parser.current { led arms, _ => break } }
         LET brs == LedBranches(ri)
             s0 == SetLocal(SetLocal(s, "kind", R.name), "el", "none")
             r == PickLed(s0, ri, brs, 1)
             s1 == r[1]
         IN IF r[2] = 0 THEN Pop(s1)
            ELSE LET b == brs[r[2]]
                     rc == RecOf(ri, b)
                 IN IF RequiresBp(ri) /\ rc.bp[1] < A.minbp THEN Pop(s1)
                    ELSE LET s2 == OpenBefore(s1, A.lhs)
                         IN SetPc(SetLocal(SetLocal(SetLocal(s2, "m", A.lhs), "br", b), "op", 1), 3)
    [] t.pc = 3 ->
         LET b == A.br
             rc == RecOf(ri, b)
             ops == ArmOps(ri, b)
         IN IF A.op > Len(ops) THEN
               \* close, announce, lhs = closed, continue
               LET s1 == CloseAnnounce(s, A.m, A.kind)
               IN SetPc(SetLocal(s1, "lhs", A.m), 2)
            ELSE IF ops[A.op][1] - 1 = rc.right THEN
               LET s1 == CloseErr(SetLocal(s, "op", A.op + 1))
               IN CallRec(s1, ri, rc.bp[2], MarkOf(s1), try)
            ELSE PushRx(SetLocal(s, "op", A.op + 1), ops[A.op][2])
    [] OTHER -> [s EXCEPT !.status = "panic"]

(***************************************************************************)
(* The driver (parse_rule) and the step function.                          *)
(***************************************************************************)
RECURSIVE PushRest(_)
PushRest(s) ==
  IF s.pos >= Len(s.w) THEN s
  ELSE PushRest([DataAdvance(s, s.w[s.pos + 1], s.w[s.pos + 1] \in SkipToks) EXCEPT !.pos = s.pos + 1])

Finish(s) ==
  LET s1 == CloseErr(s)
      s2 == IF s1.pos = Len(s1.w) THEN s1
            ELSE LET e1 == Error(s1)
                     e2 == Open(e1)
                     mk == Len(e1.nodes)
                     e3 == PushRest(e2)
                     e4 == DataClose(e3, mk, "error")
                 IN Emit(e4, Ev("create", "error", mk, FALSE))
      root == IF s.entry = 0 THEN G.start ELSE "part"
      s3 == DataCloseRoot(CloseErr(s2), 0, root)
  IN [Emit(s3, Ev("create", root, 0, FALSE)) EXCEPT !.status = "done"]

Init0(w, en, script) ==
  LET eoi == IF en = 0 THEN "EOF" ELSE G.parts[en].mark
      s0 == [w |-> w, pos |-> 0, cur |-> "EOF", eoi |-> eoi, en |-> 0, ioc |-> FALSE, esa |-> FALSE,
             diags |-> <<>>, nodes |-> <<>>, tc |-> 0, nsl |-> 0, stk |-> <<>>,
             script |-> script, used |-> <<>>, ev |-> <<>>, status |-> "run", entry |-> en, steps |-> 0,
             dev |-> {}]
      s1 == InitSkip(DataOpen(s0))
      ri == RuleIdx(IF en = 0 THEN G.start ELSE G.parts[en].name)
  IN Push(s1, Frame("rule", ri, 0, RuleLocals(ri), FALSE))

Step(s) ==
  LET s1 ==
    IF s.stk = <<>> THEN Finish(s)
    ELSE LET t == Top(s) IN
      CASE t.f = "rule" -> StepRule(s)
        [] t.f = "rx" -> StepRx(s)
        [] t.f = "oc" -> StepOc(s, t.n)
        [] t.f = "pratt" -> StepPratt(s)
        [] OTHER -> [s EXCEPT !.status = "panic"]
  IN [s1 EXCEPT !.steps = @ + 1]

Done(s) == s.status # "run"

(***************************************************************************)
(* Reference semantics for C08: "as if only the chosen alternative had     *)
(* ever been tried".  At an ordered choice the reference run executes ONE  *)
(* alternative j directly (no snapshot, no flag, nothing to undo); j = 0   *)
(* is the choice's else-branch (no alternative applies).                   *)
(***************************************************************************)
AtChoice(s) == s.stk # <<>> /\ Top(s).f = "rx" /\ NK(Top(s).n) = "oc"

RefOptions(s) ==
  LET alts == NC(Top(s).n) IN
  {j \in 1..Len(alts) : InSet(s.cur, G.nodes[alts[j]].predict)}
  \cup (IF InSet(s.cur, G.nodes[alts[Len(alts)]].predict) THEN {} ELSE {0})

StepRef(s, j) ==
  LET n == Top(s).n
      s1 == IF j = 0 THEN Pop(AdvErr(s))
            ELSE PushRx(SetTop(s, Frame("oc", n, j, NoReg, "last")), NC(n)[j])
  IN [s1 EXCEPT !.steps = @ + 1]

=============================================================================
