------------------------------- MODULE MC_P2J -------------------------------
(***************************************************************************)
(* Pipeline P2, contract judge: TLC evaluates the contract predicates of   *)
(* Contracts.tla / Language.tla on outcomes RECORDED from the real         *)
(* generated parser (one state per recorded run).  This is trace           *)
(* validation against the abstract specification: it does not depend on    *)
(* the machine specification and therefore covers every construct.         *)
(* Failures are printed as "V|{json}" lines; invariants stay TRUE so that  *)
(* one run reports every failing outcome.                                  *)
(***************************************************************************)
EXTENDS Contracts, Language, Json, IOUtils

\* a batch of grammars; every record names its grammar by index (one JVM serves many grammars,
\* JVM start-up being the dominant cost of small jobs)
Gs   == ndJsonDeserialize(IOEnv.GFILE)
Recs == ndJsonDeserialize(IOEnv.RFILE)

VARIABLE i
G == Gs[Recs[i].g]
Init == i \in 1..Len(Recs)
Next == UNCHANGED i

Say(p, why) == PrintT("V|" \o ToJson([p |-> p, i |-> i, why |-> why]))

JudgeC01 == Lossless(Recs[i].o) \/ Say("C01", "lossless")
JudgeC03 == Returned(Recs[i].o) \/ Say("C03", "returned")

JudgeC02 ==
  LET o == Recs[i].o IN
  /\ (Returned(o) /\ FlatOK(o.flat) /\ TreeSize(o.tree) = Len(o.flat)) \/ Say("C02", "extents")
  /\ (~Returned(o) \/ SpansOK(o.tree)) \/ Say("C02", "spans")
  /\ (~Returned(o) \/ TriviaOK(G, o.tree, TRUE)) \/ Say("C02", "trivia")
  /\ CreatedOK(o) \/ Say("C02", "created")

JudgeC16 == SkipTransparent(G, Recs[i].o, Recs[i].so) \/ Say("C16", "transparent")

JudgeC04 ==
  LET o == Recs[i].o
      u == Strip(G, o.w)
      inl == InL(G, o.en, u)
      \* with ordered choice the grammar denotes a subset of the context-free reading (an earlier
      \* alternative that succeeds locally wins); only "accepted => in the context-free language"
      \* is required there
      hasoc == \E n \in Nodes(G) : K(G, n) = "oc"
  IN \/ ~Returned(o)
     \/ (o.diags = <<>>) = inl
     \/ (hasoc /\ inl)
     \/ Say("C04", IF inl THEN "spurious_diagnostic" ELSE "silent_accept")

JudgeC06 ==
  LET o == Recs[i].o
      u == Strip(G, o.w)
      fe == FirstErrorPos(G, u, o.en)
      n == Len(o.w)
  IN \/ ~Returned(o) \/ o.diags = <<>> \/ fe = 0 - 1
     \/ /\ (o.diags[1][1] = OrigIndex(G, o.w, fe, 1)) \/ Say("C06", "first_position")
        /\ (\A k \in 1..(Len(o.diags) - 1) : o.diags[k][1] < o.diags[k + 1][1]) \/ Say("C06", "increasing")
        /\ (\A k \in 1..Len(o.diags) :
              \/ (o.diags[k][1] = n /\ o.diags[k][2] = n)
              \/ (o.diags[k][1] < n /\ o.diags[k][2] = o.diags[k][1] + 1)) \/ Say("C06", "span")

\* C08, event accounting on the recorded run: no action inside an attempt that can still be
\* undone (the flag is part of the snapshot taken inside the callback), and every node that
\* was announced and then discarded is announced as deleted.  (The converse is not required:
\* the implementation also announces the deletion of placeholder nodes that were never
\* announced as created.)
JudgeC08 ==
  LET o == Recs[i].o IN
  /\ (\A k \in 1..Len(o.ev) : o.ev[k].e = "act" => ~o.ev[k].ioc) \/ Say("C08", "action_in_attempt")
  /\ CreatedOK(o) \/ Say("C08", "discarded_not_deleted")

\* C07: the tree of every operator expression is one of the trees the precedence and
\* associativity rules admit (DTSet); sentences only, diagnostics are C04's business
JudgeC07 ==
  LET o == Recs[i].o
      u == Strip(G, o.w)
  IN \/ ~Returned(o) \/ o.diags # <<>>
     \/ ~InL(G, o.en, u)
     \/ LET ts == DTSet(G, u, o.en) IN
        \/ ts = {}
        \/ StripTree(G, o.tree) \in {NoActs(t) : t \in ts}
        \/ Say("C07", "tree")

JudgeC05 ==
  LET o == Recs[i].o
      u == Strip(G, o.w)
  IN \/ ~Returned(o)
     \/ ~InL(G, o.en, u)
     \/ LET dt == DT(G, u, o.en)
            acts == [k \in 1..Len(o.acts) |-> o.acts[k]]
        IN /\ (StripTree(G, o.tree) = NoActs(dt)) \/ Say("C05", "tree")
           /\ (o.acts = ActsOf(dt)) \/ Say("C05", "actions")
=============================================================================
