INIT Init
NEXT Next
INVARIANT JudgeC06
CHECK_DEADLOCK FALSE
