// Shared support code of the generated-parser runner (pipeline P2). Compiled with plain rustc
// together with one module per grammar (see lib/p2.py); std only.

use std::cell::RefCell;
use std::fmt::Write as _;
use std::rc::Rc;

#[derive(Clone, Debug)]
pub struct Diag {
    pub lo: usize,
    pub hi: usize,
    pub msg: String,
}

#[derive(Default)]
pub struct Log {
    pub events: Vec<String>, // each a JSON object
    pub script: Vec<bool>,
    pub calls: usize, // number of script-consuming calls so far
    pub nev: usize,
}

pub struct Ctx<T> {
    pub tokens: Vec<T>,
    pub log: Rc<RefCell<Log>>,
    pub want_events: bool,
}

impl<T> Ctx<T> {
    pub fn next_bool(&self) -> bool {
        let mut log = self.log.borrow_mut();
        let i = log.calls;
        log.calls += 1;
        log.script.get(i).copied().unwrap_or(false)
    }
    pub fn ev(&self, json: String) {
        let mut log = self.log.borrow_mut();
        log.nev += 1;
        if log.nev > 200_000 {
            // a run that keeps calling back without end: the parser under test does not terminate.
            // Leave at once (the harness records the input from the progress file) instead of
            // filling the memory with events.
            eprintln!("RUNAWAY");
            std::process::exit(3);
        }
        if self.want_events {
            log.events.push(json);
        }
    }
}

pub fn jstr(s: &str) -> String {
    let mut o = String::with_capacity(s.len() + 2);
    o.push('"');
    for c in s.chars() {
        match c {
            '"' => o.push_str("\\\""),
            '\\' => o.push_str("\\\\"),
            '\n' => o.push_str("\\n"),
            '\r' => o.push_str("\\r"),
            '\t' => o.push_str("\\t"),
            c if (c as u32) < 0x20 => {
                let _ = write!(o, "\\u{:04x}", c as u32);
            }
            c => o.push(c),
        }
    }
    o.push('"');
    o
}

pub fn jbools(v: &[bool]) -> String {
    let mut o = String::from("[");
    for (i, b) in v.iter().enumerate() {
        if i > 0 {
            o.push(',');
        }
        o.push_str(if *b { "true" } else { "false" });
    }
    o.push(']');
    o
}

pub fn jstrs<S: AsRef<str>>(v: &[S]) -> String {
    let mut o = String::from("[");
    for (i, s) in v.iter().enumerate() {
        if i > 0 {
            o.push(',');
        }
        o.push_str(&jstr(s.as_ref()));
    }
    o.push(']');
    o
}

pub struct Outcome {
    pub json: String,
    pub calls: usize,
}

/// Enumerates all sequences over `k` symbols of length 0..=n in length-then-lexicographic order.
pub fn for_all_inputs(k: usize, n: usize, mut f: impl FnMut(&[usize])) {
    for len in 0..=n {
        let mut w: Vec<usize> = vec![0; len];
        loop {
            f(&w);
            let mut i = len;
            let mut done = true;
            while i > 0 {
                i -= 1;
                w[i] += 1;
                if w[i] < k {
                    done = false;
                    break;
                }
                w[i] = 0;
            }
            if done {
                break;
            }
        }
    }
}

/// Depth-first enumeration of all predicate/assertion outcome scripts for one input.
/// `run(script)` returns the number of script-consuming calls the run made.
pub fn for_all_scripts(cap: usize, mut run: impl FnMut(&[bool]) -> usize) -> usize {
    let mut stack: Vec<Vec<bool>> = vec![vec![]];
    let mut count = 0;
    while let Some(s) = stack.pop() {
        if count >= cap {
            break;
        }
        count += 1;
        let calls = run(&s);
        // the run behaved as `s` padded with false up to `calls`
        let mut padded = s.clone();
        padded.resize(calls.max(s.len()), false);
        for i in (s.len()..calls).rev() {
            let mut t = padded[..i].to_vec();
            t.push(true);
            stack.push(t);
        }
    }
    count
}

pub fn parse_args() -> std::collections::HashMap<String, String> {
    let mut m = std::collections::HashMap::new();
    let mut it = std::env::args().skip(1);
    while let Some(a) = it.next() {
        if let Some(k) = a.strip_prefix("--") {
            let v = it.next().unwrap_or_default();
            m.insert(k.to_string(), v);
        }
    }
    m
}
