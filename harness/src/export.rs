//! Export of lelwel's view of a grammar file as a `G` record (DESIGN 3.1) plus everything the
//! semantic pass computed, keyed by the pre-order node numbering shared with the TLA+ side.

use lelwel::frontend::ast::*;
use lelwel::frontend::parser::{Cst, Diagnostic, NodeRef, Parser};
use lelwel::frontend::sema::*;
use serde_json::{Value, json};
use std::collections::{BTreeMap, HashMap};

pub struct Exporter<'a> {
    cst: &'a Cst<'a>,
    sema: &'a SemanticData<'a>,
    pub nodes: Vec<Value>,
    pub ids: HashMap<NodeRef, usize>,
}

fn tname(s: &str) -> String {
    if s == "ɛ" { "eps".to_string() } else { s.to_string() }
}

fn set_json(set: Option<&std::collections::BTreeSet<TokenName<'_>>>) -> Value {
    match set {
        None => Value::Null,
        Some(s) => Value::Array(s.iter().map(|t| Value::String(tname(&t.0))).collect()),
    }
}

impl<'a> Exporter<'a> {
    pub fn new(cst: &'a Cst<'a>, sema: &'a SemanticData<'a>) -> Self {
        Self { cst, sema, nodes: vec![], ids: HashMap::new() }
    }

    fn elision(&self, n: NodeRef) -> &'static str {
        match self.sema.elision.get(&n) {
            Some(RuleNodeElision::None) => "none",
            Some(RuleNodeElision::Unconditional) => "uncond",
            Some(RuleNodeElision::Conditional) => "cond",
            None => "",
        }
    }

    /// Adds `regex` and its descendants in pre-order; returns the 1-based id.
    pub fn walk(&mut self, regex: Regex) -> usize {
        let cst = self.cst;
        let sema = self.sema;
        let id = self.nodes.len() + 1;
        self.nodes.push(Value::Null);
        self.ids.insert(regex.syntax(), id);
        let k;
        let mut c: Vec<usize> = vec![];
        let mut t = String::new();
        let mut r = String::new();
        let mut num = String::new();
        let mut name = String::new();
        let mut via = "";
        let mut sym = String::new();
        match regex {
            Regex::OrderedChoice(x) => {
                k = "oc";
                for op in x.operands(cst).collect::<Vec<_>>() {
                    c.push(self.walk(op));
                }
            }
            Regex::Alternation(x) => {
                k = "alt";
                for op in x.operands(cst).collect::<Vec<_>>() {
                    c.push(self.walk(op));
                }
            }
            Regex::Concat(x) => {
                k = "cat";
                for op in x.operands(cst).collect::<Vec<_>>() {
                    c.push(self.walk(op));
                }
            }
            Regex::Paren(x) => {
                k = "paren";
                if let Some(op) = x.inner(cst) {
                    c.push(self.walk(op));
                }
            }
            Regex::Optional(x) => {
                k = "opt";
                if let Some(op) = x.operand(cst) {
                    c.push(self.walk(op));
                }
            }
            Regex::Star(x) => {
                k = "star";
                if let Some(op) = x.operand(cst) {
                    c.push(self.walk(op));
                }
            }
            Regex::Plus(x) => {
                k = "plus";
                if let Some(op) = x.operand(cst) {
                    c.push(self.walk(op));
                }
            }
            Regex::Name(x) => {
                via = "name";
                let text = x.value(cst).map(|v| v.0.to_string()).unwrap_or_default();
                match sema.decl_bindings.get(&x.syntax()) {
                    Some(decl) => {
                        if let Some(rule) = RuleDecl::cast(cst, *decl) {
                            k = "ref";
                            r = rule.name(cst).map(|v| v.0.to_string()).unwrap_or_default();
                        } else if let Some(tok) = TokenDecl::cast(cst, *decl) {
                            k = "tok";
                            t = tok.name(cst).map(|v| v.0.to_string()).unwrap_or_default();
                        } else {
                            k = "name";
                            name = text;
                        }
                    }
                    None => {
                        k = "name";
                        name = text;
                    }
                }
            }
            Regex::Symbol(x) => {
                via = "sym";
                sym = x.value(cst).map(|v| v.0.to_string()).unwrap_or_default();
                match sema.decl_bindings.get(&x.syntax()).and_then(|d| TokenDecl::cast(cst, *d)) {
                    Some(tok) => {
                        k = "tok";
                        t = tok.name(cst).map(|v| v.0.to_string()).unwrap_or_default();
                    }
                    None => {
                        k = "name";
                    }
                }
            }
            Regex::Predicate(x) => {
                k = "pred";
                num = x.value(cst).map(|v| v.0[1..].to_string()).unwrap_or_default();
            }
            Regex::Action(x) => {
                k = "act";
                num = x.value(cst).map(|v| v.0[1..].to_string()).unwrap_or_default();
            }
            Regex::Assertion(x) => {
                k = "assert";
                num = x.value(cst).map(|v| v.0[1..].to_string()).unwrap_or_default();
            }
            Regex::NodeRename(x) => {
                k = "rename";
                name = x.value(cst).map(|v| v.0[1..].to_string()).unwrap_or_default();
            }
            Regex::NodeElision(_) => {
                k = "elide";
            }
            Regex::NodeMarker(x) => {
                k = "mark";
                num = x.value(cst).and_then(|(s, _)| s.split_once('<')).map(|(_, r)| r.to_string()).unwrap_or_default();
            }
            Regex::NodeCreation(x) => {
                k = "create";
                num = x.number(cst).unwrap_or("").to_string();
                name = x.node_name(cst).unwrap_or("").to_string();
            }
            Regex::Commit(_) => {
                k = "commit";
            }
            Regex::Return(_) => {
                k = "ret";
            }
        }
        let syn = regex.syntax();
        let span = cst.span(syn);
        self.nodes[id - 1] = json!({
            "k": k, "c": c, "t": t, "r": r, "num": num, "name": name, "via": via, "sym": sym,
            "lo": span.start, "hi": span.end,
            "first": set_json(sema.first_sets.get(&syn)),
            "follow": set_json(sema.follow_sets.get(&syn)),
            "predict": set_json(sema.predict_sets.get(&syn)),
            "recovery": set_json(sema.recovery_sets.get(&syn)),
            "elision": self.elision(syn),
            "inchoice": sema.used_in_ordered_choice.contains(&syn),
        });
        id
    }
}

fn diag_json(d: &Diagnostic, ids_by_span: &BTreeMap<(usize, usize), usize>) -> Value {
    let labels: Vec<Value> = d
        .labels
        .iter()
        .map(|l| {
            json!({
                "primary": l.style == codespan_reporting::diagnostic::LabelStyle::Primary,
                "lo": l.range.start, "hi": l.range.end, "msg": l.message,
                "node": ids_by_span.get(&(l.range.start, l.range.end)).copied().unwrap_or(0),
            })
        })
        .collect();
    json!({
        "code": d.code.clone().unwrap_or_default(),
        "sev": format!("{:?}", d.severity),
        "msg": d.message,
        "labels": labels,
        "notes": d.notes,
    })
}

/// Runs lexer, parser and semantic pass on `source` and returns the full export.
pub fn export_source(name: &str, source: &str) -> Value {
    let mut diags = vec![];
    let cst = Parser::new(source, &mut diags).parse(&mut diags);
    let n_syntax = diags.len();
    let sema = SemanticPass::run(&cst, &mut diags);
    export(name, source, &cst, &sema, &diags, n_syntax)
}

pub fn export(
    name: &str,
    _source: &str,
    cst: &Cst<'_>,
    sema: &SemanticData<'_>,
    diags: &[Diagnostic],
    n_syntax: usize,
) -> Value {
    let mut ex = Exporter::new(cst, sema);
    let mut tokens = vec![];
    let mut rules = vec![];
    let mut skip = vec![];
    let mut right = vec![];
    let mut parts = vec![];
    let mut starts = vec![];
    let mut decls = vec![];
    if let Some(file) = File::cast(cst, NodeRef::ROOT) {
        // declaration order as written (kinds only), for C13/C15
        for ch in cst.children(NodeRef::ROOT) {
            if RuleDecl::cast(cst, ch).is_some() {
                decls.push("rule");
            } else if StartDecl::cast(cst, ch).is_some() {
                decls.push("start");
            } else if RightDecl::cast(cst, ch).is_some() {
                decls.push("right");
            } else if SkipDecl::cast(cst, ch).is_some() {
                decls.push("skip");
            } else if PartDecl::cast(cst, ch).is_some() {
                decls.push("part");
            } else if cst.match_rule(ch, lelwel::frontend::parser::Rule::TokenList) {
                decls.push("token");
            }
        }
        for tok in file.token_decls(cst) {
            let n = tok.name(cst).map(|v| v.0.to_string()).unwrap_or_default();
            let s = tok.symbol(cst).map(|v| v.0.to_string()).unwrap_or_default();
            tokens.push(json!({"name": n, "sym": s, "used": sema.used.contains(&tok.syntax())}));
        }
        for d in file.start_decls(cst) {
            starts.push(d.rule_name(cst).map(|v| v.0.to_string()).unwrap_or_default());
        }
        for d in file.right_decls(cst) {
            d.token_names(cst, |(n, _)| right.push(n.to_string()));
        }
        for d in file.skip_decls(cst) {
            d.token_names(cst, |(n, _)| skip.push(n.to_string()));
        }
        for d in file.part_decls(cst) {
            d.rule_names(cst, |(n, _)| parts.push(n.to_string()));
        }
        for rule in file.rule_decls(cst) {
            let n = rule.name(cst).map(|v| v.0.to_string()).unwrap_or_default();
            let body = match rule.regex(cst) {
                Some(regex) => ex.walk(regex),
                None => 0,
            };
            let mut rec = vec![];
            let mut lrlf = Value::Null;
            if let Some(regex) = rule.regex(cst) {
                lrlf = set_json(sema.left_rec_local_follow_sets.get(&regex.syntax()));
            }
            if let Some(rb) = sema.recursive.get(&rule) {
                for b in rb.branches() {
                    let (kind, l, r) = match b {
                        Recursion::Left(_, l) => ("left", *l as i64, -1i64),
                        Recursion::Right(_, r) => ("right", -1i64, *r as i64),
                        Recursion::LeftRight(_, l, r) => ("leftright", *l as i64, *r as i64),
                    };
                    let bp = rb.binding_power(b.regex());
                    rec.push(json!({
                        "kind": kind, "node": ex.ids.get(&b.regex().syntax()).copied().unwrap_or(0),
                        "left": l, "right": r, "bp": [bp.0, bp.1],
                    }));
                }
            }
            rules.push(json!({
                "name": n, "elided": rule.is_elided(cst), "body": body,
                "used": sema.used.contains(&rule.syntax()),
                "inchoice": sema.used_in_ordered_choice.contains(&rule.syntax()),
                "has_rename": sema.has_rule_rename.contains(&rule),
                "has_creation": sema.has_rule_creation.contains(&rule),
                "recursive": rec,
                "lrlf": lrlf,
                "ispart": sema.parts.contains(&rule),
            }));
        }
    }
    let mut by_span = BTreeMap::new();
    for n in ex.nodes.iter().enumerate() {
        let lo = n.1["lo"].as_u64().unwrap() as usize;
        let hi = n.1["hi"].as_u64().unwrap() as usize;
        by_span.entry((lo, hi)).or_insert(n.0 + 1);
    }
    let djson: Vec<Value> = diags.iter().map(|d| diag_json(d, &by_span)).collect();
    let mut semaright: Vec<String> = sema.right_associative.iter().map(|s| s.to_string()).collect();
    semaright.sort();
    let has_error = diags.iter().any(|d| d.severity == codespan_reporting::diagnostic::Severity::Error);
    json!({
        "name": name,
        "tokens": tokens, "skip": skip, "right": right, "parts": parts, "starts": starts,
        "start": sema.start_rule.and_then(|r| r.name(cst)).map(|v| v.0.to_string()).unwrap_or_default(),
        "semaparts": sema.parts.iter().map(|r| r.name(cst).map(|v| v.0.to_string()).unwrap_or_default()).collect::<Vec<_>>(),
        "semaskip": sema.skipped.iter().map(|r| r.name(cst).map(|v| v.0.to_string()).unwrap_or_default()).collect::<Vec<_>>(),
        "semaright": semaright,
        "decls": decls,
        "rules": rules, "nodes": ex.nodes,
        "diags": djson, "nsyntax": n_syntax, "haserror": has_error,
    })
}
