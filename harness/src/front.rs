//! Front-end, formatter and generator entry points used by several pipelines.

use lelwel::backend::format::format;
use lelwel::backend::rust::RustOutput;
use lelwel::frontend::lexer::{Token, tokenize};
use lelwel::frontend::parser::{Diagnostic, Parser};
use lelwel::frontend::sema::SemanticPass;
use serde_json::{Value, json};
use std::panic::{AssertUnwindSafe, catch_unwind};
use std::path::Path;

fn is_error(d: &Diagnostic) -> bool {
    d.severity == codespan_reporting::diagnostic::Severity::Error
}

/// probe gen: runs the front end and, when no error was reported, the Rust back end.
pub fn gen_parser(input: &str, outdir: &str) -> Value {
    let text = std::fs::read_to_string(input).expect("read grammar");
    let mut diags = vec![];
    let cst = Parser::new(&text, &mut diags).parse(&mut diags);
    let sema = SemanticPass::run(&cst, &mut diags);
    let codes: Vec<String> = diags.iter().map(|d| d.code.clone().unwrap_or_else(|| "SYNTAX".into())).collect();
    let haserror = diags.iter().any(is_error);
    let mut written = false;
    if !haserror {
        std::fs::create_dir_all(outdir).unwrap();
        RustOutput::run(&cst, &sema, Path::new(input), Path::new(outdir)).expect("RustOutput::run");
        written = true;
    }
    json!({"name": input, "haserror": haserror, "codes": codes, "written": written})
}

fn lex_items(text: &str) -> Vec<Value> {
    let mut d = vec![];
    let (toks, spans) = tokenize(text, &mut d);
    toks.iter()
        .zip(spans.iter())
        .filter(|(t, _)| **t != Token::Whitespace)
        .map(|(t, s)| json!([format!("{t:?}"), &text[s.clone()]]))
        .collect()
}

fn sema_codes(text: &str) -> (usize, Vec<Value>) {
    let mut diags = vec![];
    let cst = Parser::new(text, &mut diags).parse(&mut diags);
    let nsyn = diags.len();
    let _ = SemanticPass::run(&cst, &mut diags);
    let codes = diags[nsyn..]
        .iter()
        .map(|d| {
            let slice = d.labels.first().map(|l| text.get(l.range.clone()).unwrap_or("?")).unwrap_or("");
            // whitespace-insensitive rendering of the construct the diagnostic points at
            let compact: String = slice.split_whitespace().collect::<Vec<_>>().join(" ");
            json!([d.code.clone().unwrap_or_default(), compact])
        })
        .collect();
    (nsyn, codes)
}

/// probe fmt: x, f(x), f(f(x)) with the lexical and semantic views needed by C17/C18.
pub fn fmt_record(name: &str, text: &str) -> Value {
    let stage = std::cell::Cell::new("lex");
    let r = catch_unwind(AssertUnwindSafe(|| {
        let toks_x = lex_items(text);
        stage.set("parse");
        let mut d0 = vec![];
        let cst = Parser::new(text, &mut d0).parse(&mut d0);
        stage.set("format1");
        let f1 = format(&cst);
        stage.set("parse2");
        let mut d1 = vec![];
        let cst1 = Parser::new(&f1, &mut d1).parse(&mut d1);
        stage.set("format2");
        let f2 = format(&cst1);
        stage.set("lex2");
        let toks_f1 = lex_items(&f1);
        stage.set("sema");
        let (nsyn_x, sema_x) = sema_codes(text);
        let (nsyn_f1, sema_f1) = sema_codes(&f1);
        json!({
            "name": name, "x": text, "f1": f1, "f2": f2,
            "toks_x": toks_x, "toks_f1": toks_f1,
            "nsyn_x": nsyn_x, "nsyn_f1": nsyn_f1,
            "sema_x": sema_x, "sema_f1": sema_f1,
            "panic": "",
        })
    }));
    match r {
        Ok(v) => v,
        Err(_) => json!({"name": name, "x": text, "panic": stage.get()}),
    }
}

/// probe front: lexing, parsing and semantic analysis of an arbitrary text; span validity.
pub fn front_record(name: &str, text: &str) -> Value {
    let stage = std::cell::Cell::new("lex");
    let r = catch_unwind(AssertUnwindSafe(|| {
        let mut diags = vec![];
        let (toks, spans) = tokenize(text, &mut diags);
        // lexer must tile the text
        let mut tiled = true;
        let mut at = 0usize;
        for s in &spans {
            if s.start != at || s.end < s.start {
                tiled = false;
            }
            at = s.end;
        }
        if at != text.len() {
            tiled = false;
        }
        let kinds: Vec<String> = toks.iter().map(|t| format!("{t:?}")).collect();
        stage.set("parse");
        let mut diags = vec![];
        let cst = Parser::new(text, &mut diags).parse(&mut diags);
        let nsyn = diags.len();
        stage.set("sema");
        let sema = SemanticPass::run(&cst, &mut diags);
        let mut bad = vec![];
        for d in &diags {
            for l in &d.labels {
                let ok = l.range.start <= l.range.end
                    && l.range.end <= text.len()
                    && text.is_char_boundary(l.range.start)
                    && text.is_char_boundary(l.range.end);
                if !ok {
                    bad.push(json!([d.code.clone().unwrap_or_default(), l.range.start, l.range.end]));
                }
            }
        }
        stage.set("render");
        // rendering is what users see; it must not panic either
        {
            use codespan_reporting::files::SimpleFile;
            use codespan_reporting::term::{self, termcolor::NoColor};
            let file = SimpleFile::new("x.llw", text);
            let cfg = codespan_reporting::term::Config::default();
            let mut w = NoColor::new(Vec::new());
            for d in &diags {
                let _ = term::emit_to_write_style(&mut w, &cfg, &file, d);
            }
        }
        stage.set("cstdisplay");
        let shown = format!("{cst}");
        stage.set("format");
        let f1 = format(&cst);
        let haserror = diags.iter().any(is_error);
        stage.set("export");
        let ex = crate::export::export(name, text, &cst, &sema, &diags, nsyn);
        json!({
            "name": name, "len": text.len(), "kinds": kinds, "tiled": tiled,
            "ndiags": diags.len(), "nsyn": nsyn, "haserror": haserror,
            "bad_spans": bad, "cst_lines": shown.lines().count(),
            "fmt_len": f1.len(),
            "nnodes": ex["nodes"].as_array().map(|a| a.len()).unwrap_or(0),
            "panic": "",
        })
    }));
    match r {
        Ok(v) => v,
        Err(_) => json!({"name": name, "len": text.len(), "panic": stage.get()}),
    }
}
