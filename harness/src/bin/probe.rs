//! `probe` — the in-process window into lelwel used by the /verif pipelines.
//!
//!   probe export <file.llw>...           one JSON line per file: G + analysis + diagnostics
//!   probe export-texts <in.ndjson>       lines {"name","text"} -> one export line each
//!   probe gen <file.llw> <outdir>        front end + sema + RustOutput::run (no llw process)
//!   probe fmt <in.ndjson>                lines {"name","text"} -> formatter triple + lex info
//!   probe front <in.ndjson>              lines {"name","text"} -> front-end robustness record
//!
//! A panic in the code under test is data: it is caught and reported in the JSON line.

#[path = "../export.rs"]
mod export;
#[path = "../front.rs"]
mod front;

use serde_json::{Value, json};
use std::io::{BufRead, Write};
use std::panic::{AssertUnwindSafe, catch_unwind};

fn panic_msg(e: Box<dyn std::any::Any + Send>) -> String {
    if let Some(s) = e.downcast_ref::<&str>() {
        s.to_string()
    } else if let Some(s) = e.downcast_ref::<String>() {
        s.clone()
    } else {
        "panic".to_string()
    }
}

fn main() {
    // keep stderr quiet for expected panics, but remember the location
    std::panic::set_hook(Box::new(|info| {
        let loc = info.location().map(|l| format!("{}:{}", l.file(), l.line())).unwrap_or_default();
        LAST_PANIC_LOC.with(|c| *c.borrow_mut() = loc);
    }));
    let args: Vec<String> = std::env::args().collect();
    let out = std::io::stdout();
    let mut out = std::io::BufWriter::new(out.lock());
    match args.get(1).map(|s| s.as_str()) {
        Some("export") => {
            for f in &args[2..] {
                let text = std::fs::read_to_string(f).expect("read grammar");
                let v = guarded(f, || export::export_source(f, &text));
                writeln!(out, "{v}").unwrap();
            }
        }
        Some("export-texts") => {
            let file = std::fs::File::open(&args[2]).expect("open");
            for line in std::io::BufReader::new(file).lines() {
                let line = line.unwrap();
                if line.trim().is_empty() {
                    continue;
                }
                let rec: Value = serde_json::from_str(&line).expect("json");
                let name = rec["name"].as_str().unwrap_or("").to_string();
                let text = rec["text"].as_str().unwrap_or("").to_string();
                let v = guarded(&name, || export::export_source(&name, &text));
                writeln!(out, "{v}").unwrap();
            }
        }
        Some("gen") => {
            let input = &args[2];
            let outdir = &args[3];
            let v = guarded(input, || front::gen_parser(input, outdir));
            writeln!(out, "{v}").unwrap();
        }
        Some("fmt") => {
            let file = std::fs::File::open(&args[2]).expect("open");
            for line in std::io::BufReader::new(file).lines() {
                let line = line.unwrap();
                if line.trim().is_empty() {
                    continue;
                }
                let rec: Value = serde_json::from_str(&line).expect("json");
                let name = rec["name"].as_str().unwrap_or("").to_string();
                let text = rec["text"].as_str().unwrap_or("").to_string();
                let v = guarded(&name, || front::fmt_record(&name, &text));
                writeln!(out, "{v}").unwrap();
            }
        }
        Some("front") => {
            let file = std::fs::File::open(&args[2]).expect("open");
            for line in std::io::BufReader::new(file).lines() {
                let line = line.unwrap();
                if line.trim().is_empty() {
                    continue;
                }
                let rec: Value = serde_json::from_str(&line).expect("json");
                let name = rec["name"].as_str().unwrap_or("").to_string();
                let text = rec["text"].as_str().unwrap_or("").to_string();
                let v = guarded(&name, || front::front_record(&name, &text));
                writeln!(out, "{v}").unwrap();
            }
        }
        _ => {
            eprintln!("usage: probe export|export-texts|gen|fmt|front ...");
            std::process::exit(2);
        }
    }
}

thread_local! {
    static LAST_PANIC_LOC: std::cell::RefCell<String> = const { std::cell::RefCell::new(String::new()) };
}

fn guarded(name: &str, f: impl FnOnce() -> Value) -> Value {
    match catch_unwind(AssertUnwindSafe(f)) {
        Ok(v) => v,
        Err(e) => {
            let loc = LAST_PANIC_LOC.with(|c| c.borrow().clone());
            json!({"name": name, "panic": panic_msg(e), "panic_at": loc})
        }
    }
}
