//! `lspdrive` — drives lelwel's language server with recorded/generated sessions (pipeline P7, C20).
//!
//!   lspdrive inproc <sessions.ndjson> [timeout_ms]
//!       mode A: `lelwel::ide::Cache` in process, exactly as the handlers of bin/lelwel-ls.rs use it
//!   lspdrive stdio <lelwel-ls binary> <sessions.ndjson> <burst|lockstep|delayed> [timeout_ms]
//!       mode B: the real server binary over stdio with LSP framing
//!
//! A session line is `{"id": .., "steps": [step..]}` with steps
//!   {"op":"open"|"change","doc":N,"text":".."}   {"op":"close","doc":N}
//!   {"op":"hover"|"definition"|"completion","doc":N,"line":L,"character":C}
//!   {"op":"references","doc":N,"line":L,"character":C,"include_declaration":B}
//!   {"op":"formatting","doc":N}
//! Output: one JSON line per session:
//!   {"id","mode","pacing","results":[{"i","op","result"|"panic"|"dead"|"unanswered",
//!     "thread_panics":[..]}..], "died": null|{"step","how",..}, "hang": bool, "stderr_panics": [..]}
//! `result` is the JSON the server sends (publishDiagnostics params for open/change, the response
//! result for requests, `{"closed":true}` for close).  A panic / death / hang of the code under
//! test is data, never a tool failure.

use lelwel::ide::Cache;
use lsp_types::*;
use serde_json::{Value, json};
use std::io::{BufRead, BufReader, Read, Write};
use std::panic::{AssertUnwindSafe, catch_unwind};
use std::sync::atomic::{AtomicU64, Ordering};
use std::sync::{Arc, Mutex, mpsc};
use std::time::{Duration, Instant};

static PANICS: Mutex<Vec<(u64, String, String, String)>> = Mutex::new(Vec::new());
static EPOCH: AtomicU64 = AtomicU64::new(0);

fn panic_msg(e: Box<dyn std::any::Any + Send>) -> String {
    if let Some(s) = e.downcast_ref::<&str>() {
        s.to_string()
    } else if let Some(s) = e.downcast_ref::<String>() {
        s.clone()
    } else {
        "panic (non-string payload)".to_string()
    }
}

fn doc_uri(doc: u64) -> Url {
    Url::parse(&format!("file:///verif/build/lsp/doc{doc}.llw")).unwrap()
}

fn drain_panics(epoch: u64) -> Vec<Value> {
    let mut g = PANICS.lock().unwrap_or_else(|e| e.into_inner());
    let mut out = vec![];
    g.retain(|(ep, th, msg, loc)| {
        if *ep == epoch {
            out.push(json!({"thread": th, "msg": msg, "at": loc}));
            false
        } else {
            // a leaked (hung) session's late panic: drop it
            false
        }
    });
    out
}

fn pos_of(step: &Value) -> Position {
    Position::new(
        step["line"].as_u64().unwrap_or(0) as u32,
        step["character"].as_u64().unwrap_or(0) as u32,
    )
}

/// One step against the in-process cache, mirroring the handlers of src/bin/lelwel-ls.rs.
fn inproc_step(cache: &mut Cache, step: &Value) -> Value {
    let op = step["op"].as_str().unwrap_or("");
    let uri = doc_uri(step["doc"].as_u64().unwrap_or(0));
    let tdpp = || TextDocumentPositionParams {
        text_document: TextDocumentIdentifier { uri: uri.clone() },
        position: pos_of(step),
    };
    match op {
        "open" | "change" => {
            let text = step["text"].as_str().unwrap_or("").to_string();
            let diagnostics = {
                cache.invalidate(&uri);
                cache.analyze(uri.clone(), text);
                cache.get_diagnostics(&uri)
            };
            let result = PublishDiagnosticsParams::new(uri.clone(), diagnostics, None);
            serde_json::to_value(&result).unwrap()
        }
        "close" => {
            cache.invalidate(&uri);
            json!({"closed": true})
        }
        "hover" => {
            let r = cache.hover(&uri, pos_of(step)).map(|(msg, range)| Hover {
                contents: HoverContents::Markup(MarkupContent { kind: MarkupKind::Markdown, value: msg }),
                range: Some(range),
            });
            serde_json::to_value(&r).unwrap()
        }
        "definition" => {
            let r = cache.goto_definition(&uri, pos_of(step)).map(GotoDefinitionResponse::Scalar);
            serde_json::to_value(&r).unwrap()
        }
        "references" => {
            let with_decl = step["include_declaration"].as_bool().unwrap_or(false);
            let r = Some(cache.references(&uri, pos_of(step), with_decl));
            serde_json::to_value(&r).unwrap()
        }
        "completion" => {
            let params = CompletionParams {
                text_document_position: tdpp(),
                work_done_progress_params: Default::default(),
                partial_result_params: Default::default(),
                context: None,
            };
            serde_json::to_value(&cache.completion(params)).unwrap()
        }
        "formatting" => {
            let params = DocumentFormattingParams {
                text_document: TextDocumentIdentifier { uri: uri.clone() },
                options: FormattingOptions { tab_size: 4, insert_spaces: true, ..Default::default() },
                work_done_progress_params: Default::default(),
            };
            serde_json::to_value(&cache.formatting(params)).unwrap()
        }
        _ => json!({"harness_error": format!("unknown op {op}")}),
    }
}

fn run_inproc_session(sess: &Value, epoch: u64, shared: Arc<Mutex<Vec<Value>>>) -> Value {
    let empty = vec![];
    let steps = sess["steps"].as_array().unwrap_or(&empty);
    let mut cache = Cache::default();
    let mut died = Value::Null;
    for (i, step) in steps.iter().enumerate() {
        let r = catch_unwind(AssertUnwindSafe(|| inproc_step(&mut cache, step)));
        let tp = drain_panics(epoch);
        let op = step["op"].clone();
        match r {
            Ok(v) => {
                shared.lock().unwrap().push(json!({"i": i, "op": op, "result": v, "thread_panics": tp}));
            }
            Err(e) => {
                let msg = panic_msg(e);
                shared.lock().unwrap().push(json!({"i": i, "op": op, "panic": msg, "dead": true, "thread_panics": tp}));
                died = json!({"step": i, "how": "panic in the main-loop handler", "panic": msg});
                break;
            }
        }
    }
    // dropping the cache drops the request senders: live analyzer threads leave their loop;
    // join handles are detached, so this never blocks and never panics
    drop(cache);
    died
}

fn mode_inproc(path: &str, timeout: Duration) {
    std::panic::set_hook(Box::new(|info| {
        let loc = info.location().map(|l| format!("{}:{}:{}", l.file(), l.line(), l.column())).unwrap_or_default();
        let msg = if let Some(s) = info.payload().downcast_ref::<&str>() {
            s.to_string()
        } else if let Some(s) = info.payload().downcast_ref::<String>() {
            s.clone()
        } else {
            "panic".to_string()
        };
        let th = std::thread::current();
        let name = th.name().unwrap_or("<unnamed>").to_string();
        let ep = EPOCH.load(Ordering::SeqCst);
        PANICS.lock().unwrap_or_else(|e| e.into_inner()).push((ep, name, msg, loc));
    }));
    let file = std::fs::File::open(path).expect("open sessions");
    let out = std::io::stdout();
    let mut out = std::io::BufWriter::new(out.lock());
    for line in BufReader::new(file).lines() {
        let line = line.unwrap();
        if line.trim().is_empty() {
            continue;
        }
        let sess: Value = serde_json::from_str(&line).expect("session json");
        let epoch = EPOCH.fetch_add(1, Ordering::SeqCst) + 1;
        let shared = Arc::new(Mutex::new(Vec::<Value>::new()));
        let (tx, rx) = mpsc::channel();
        let s2 = sess.clone();
        let sh2 = shared.clone();
        let t0 = Instant::now();
        std::thread::Builder::new()
            .name("session".into())
            .stack_size(64 << 20)
            .spawn(move || {
                let died = run_inproc_session(&s2, epoch, sh2);
                let _ = tx.send(died);
            })
            .unwrap();
        let (died, hang) = match rx.recv_timeout(timeout) {
            Ok(d) => (d, false),
            Err(_) => (Value::Null, true),
        };
        let results = shared.lock().unwrap().clone();
        let v = json!({
            "id": sess["id"], "mode": "inproc", "pacing": "call", "results": results,
            "died": died, "hang": hang, "wall_ms": t0.elapsed().as_millis() as u64,
        });
        writeln!(out, "{v}").unwrap();
    }
    out.flush().unwrap();
    // leaked hung sessions must not keep the process alive
    std::process::exit(0);
}

// ------------------------------------------------------------------------------------------------
// mode B: the real binary over stdio
// ------------------------------------------------------------------------------------------------

enum Frame {
    Msg(Value),
    Eof,
}

fn read_frames(stdout: impl Read + Send + 'static, tx: mpsc::Sender<Frame>) {
    std::thread::spawn(move || {
        let mut r = BufReader::new(stdout);
        loop {
            let mut len: Option<usize> = None;
            loop {
                let mut h = String::new();
                match r.read_line(&mut h) {
                    Ok(0) | Err(_) => {
                        let _ = tx.send(Frame::Eof);
                        return;
                    }
                    Ok(_) => {}
                }
                let h = h.trim_end();
                if h.is_empty() {
                    break;
                }
                if let Some(v) = h.strip_prefix("Content-Length:") {
                    len = v.trim().parse().ok();
                }
            }
            let Some(n) = len else {
                let _ = tx.send(Frame::Eof);
                return;
            };
            let mut buf = vec![0u8; n];
            if r.read_exact(&mut buf).is_err() {
                let _ = tx.send(Frame::Eof);
                return;
            }
            match serde_json::from_slice::<Value>(&buf) {
                Ok(v) => {
                    let _ = tx.send(Frame::Msg(v));
                }
                Err(_) => {
                    let _ = tx.send(Frame::Eof);
                    return;
                }
            }
        }
    });
}

fn frame(v: &Value) -> Vec<u8> {
    let body = serde_json::to_vec(v).unwrap();
    let mut out = format!("Content-Length: {}\r\n\r\n", body.len()).into_bytes();
    out.extend(body);
    out
}

fn step_message(i: usize, step: &Value, versions: &mut std::collections::HashMap<u64, i64>) -> (Value, Option<u64>, bool) {
    // returns (message, request id if a request, expects publishDiagnostics)
    let op = step["op"].as_str().unwrap_or("");
    let doc = step["doc"].as_u64().unwrap_or(0);
    let uri = doc_uri(doc).to_string();
    let id = 1000 + i as u64;
    let pos = json!({"line": step["line"].as_u64().unwrap_or(0), "character": step["character"].as_u64().unwrap_or(0)});
    match op {
        "open" => {
            versions.insert(doc, 1);
            (json!({"jsonrpc":"2.0","method":"textDocument/didOpen","params":{"textDocument":{
                "uri": uri, "languageId":"lelwel", "version": 1, "text": step["text"]}}}), None, true)
        }
        "change" => {
            let v = versions.entry(doc).or_insert(1);
            *v += 1;
            (json!({"jsonrpc":"2.0","method":"textDocument/didChange","params":{
                "textDocument":{"uri": uri, "version": *v},
                "contentChanges":[{"text": step["text"]}]}}), None, true)
        }
        "close" => (json!({"jsonrpc":"2.0","method":"textDocument/didClose","params":{"textDocument":{"uri": uri}}}), None, false),
        "hover" => (json!({"jsonrpc":"2.0","id":id,"method":"textDocument/hover","params":{
            "textDocument":{"uri": uri},"position": pos}}), Some(id), false),
        "definition" => (json!({"jsonrpc":"2.0","id":id,"method":"textDocument/definition","params":{
            "textDocument":{"uri": uri},"position": pos}}), Some(id), false),
        "references" => (json!({"jsonrpc":"2.0","id":id,"method":"textDocument/references","params":{
            "textDocument":{"uri": uri},"position": pos,
            "context":{"includeDeclaration": step["include_declaration"].as_bool().unwrap_or(false)}}}), Some(id), false),
        "completion" => (json!({"jsonrpc":"2.0","id":id,"method":"textDocument/completion","params":{
            "textDocument":{"uri": uri},"position": pos}}), Some(id), false),
        "formatting" => (json!({"jsonrpc":"2.0","id":id,"method":"textDocument/formatting","params":{
            "textDocument":{"uri": uri},"options":{"tabSize":4,"insertSpaces":true}}}), Some(id), false),
        _ => (json!({"jsonrpc":"2.0","method":"$/harnessUnknown"}), None, false),
    }
}

struct Client {
    rx: mpsc::Receiver<Frame>,
    responses: std::collections::HashMap<u64, Value>,
    publishes: Vec<Value>,
    eof: bool,
}

impl Client {
    /// Pumps incoming frames until `done` holds, EOF, or the deadline.
    fn pump_until(&mut self, deadline: Instant, done: impl Fn(&Client) -> bool) -> bool {
        loop {
            if done(self) {
                return true;
            }
            if self.eof {
                return false;
            }
            let now = Instant::now();
            if now >= deadline {
                return false;
            }
            match self.rx.recv_timeout(deadline - now) {
                Ok(Frame::Msg(v)) => {
                    if v.get("method").and_then(|m| m.as_str()) == Some("textDocument/publishDiagnostics") {
                        self.publishes.push(v["params"].clone());
                    } else if v.get("id").is_some() && v.get("method").is_none() {
                        if let Some(id) = v["id"].as_u64() {
                            self.responses.insert(id, v);
                        }
                    }
                }
                Ok(Frame::Eof) => {
                    self.eof = true;
                }
                Err(mpsc::RecvTimeoutError::Timeout) => return false,
                Err(mpsc::RecvTimeoutError::Disconnected) => {
                    self.eof = true;
                }
            }
        }
    }
}

fn run_stdio_session(bin: &str, sess: &Value, pacing: &str, timeout: Duration) -> Value {
    let t0 = Instant::now();
    let empty = vec![];
    let steps = sess["steps"].as_array().unwrap_or(&empty);
    let mut child = std::process::Command::new(bin)
        .stdin(std::process::Stdio::piped())
        .stdout(std::process::Stdio::piped())
        .stderr(std::process::Stdio::piped())
        .env("RUST_BACKTRACE", "0")
        .spawn()
        .expect("spawn lelwel-ls");
    let mut stdin = child.stdin.take().unwrap();
    let stdout = child.stdout.take().unwrap();
    let mut stderr = child.stderr.take().unwrap();
    let errbuf = Arc::new(Mutex::new(String::new()));
    let eb = errbuf.clone();
    let errthread = std::thread::spawn(move || {
        let mut s = String::new();
        let _ = stderr.read_to_string(&mut s);
        *eb.lock().unwrap() = s;
    });
    let (tx, rx) = mpsc::channel();
    read_frames(stdout, tx);
    let mut cl = Client { rx, responses: Default::default(), publishes: vec![], eof: false };
    let mut write_failed = false;
    let mut send = |stdin: &mut std::process::ChildStdin, v: &Value| -> bool {
        let ok = stdin.write_all(&frame(v)).and_then(|_| stdin.flush()).is_ok();
        if !ok {
            write_failed = true;
        }
        ok
    };
    // handshake
    send(&mut stdin, &json!({"jsonrpc":"2.0","id":0,"method":"initialize","params":{
        "processId": null, "rootUri": null, "capabilities": {}}}));
    let init_ok = cl.pump_until(Instant::now() + timeout, |c| c.responses.contains_key(&0));
    send(&mut stdin, &json!({"jsonrpc":"2.0","method":"initialized","params":{}}));

    let mut versions = std::collections::HashMap::new();
    let msgs: Vec<(Value, Option<u64>, bool)> =
        steps.iter().enumerate().map(|(i, s)| step_message(i, s, &mut versions)).collect();
    // the k-th publishDiagnostics belongs to the k-th open/change step (the main loop is sequential)
    let mut pub_index = vec![None; steps.len()];
    let mut k = 0;
    for (i, m) in msgs.iter().enumerate() {
        if m.2 {
            pub_index[i] = Some(k);
            k += 1;
        }
    }
    let answered = |c: &Client, i: usize| -> bool {
        match (&msgs[i].1, pub_index[i]) {
            (Some(id), _) => c.responses.contains_key(id),
            (None, Some(k)) => c.publishes.len() > k,
            _ => true,
        }
    };
    let mut hang = false;
    if init_ok {
        match pacing {
            "burst" => {
                let mut all = vec![];
                for m in msgs.iter() {
                    all.extend(frame(&m.0));
                }
                if stdin.write_all(&all).and_then(|_| stdin.flush()).is_err() {
                    // server died while we were still writing
                }
            }
            _ => {
                for (i, m) in msgs.iter().enumerate() {
                    if pacing == "delayed" {
                        std::thread::sleep(Duration::from_millis(3 + (i as u64 % 3) * 4));
                    }
                    if !send(&mut stdin, &m.0) {
                        break;
                    }
                    if pacing == "lockstep" || pacing == "delayed" {
                        let ok = cl.pump_until(Instant::now() + timeout, |c| answered(c, i));
                        if !ok {
                            if !cl.eof {
                                hang = true;
                            }
                            break;
                        }
                    }
                }
            }
        }
    }
    // shutdown: its response also tells that every earlier message was handled
    let shutdown_id = 999_999u64;
    let mut shutdown_ok = false;
    if init_ok && !hang && !cl.eof {
        send(&mut stdin, &json!({"jsonrpc":"2.0","id":shutdown_id,"method":"shutdown","params":null}));
        shutdown_ok = cl.pump_until(Instant::now() + timeout, |c| c.responses.contains_key(&shutdown_id));
        if !shutdown_ok && !cl.eof {
            hang = true;
        }
        send(&mut stdin, &json!({"jsonrpc":"2.0","method":"exit","params":null}));
    }
    drop(stdin);
    // exit status
    let mut status: Option<std::process::ExitStatus> = None;
    let wait_deadline = Instant::now() + if hang { Duration::from_millis(200) } else { Duration::from_secs(5) };
    loop {
        match child.try_wait() {
            Ok(Some(s)) => {
                status = Some(s);
                break;
            }
            Ok(None) => {
                if Instant::now() >= wait_deadline {
                    let _ = child.kill();
                    let _ = child.wait();
                    break;
                }
                std::thread::sleep(Duration::from_millis(2));
            }
            Err(_) => break,
        }
    }
    let _ = errthread.join();
    let err = errbuf.lock().unwrap().clone();
    // panic messages on stderr: "thread '<name>' panicked at <loc>:\n<msg>"
    let mut stderr_panics = vec![];
    let lines: Vec<&str> = err.lines().collect();
    for (j, l) in lines.iter().enumerate() {
        if let Some(rest) = l.strip_prefix("thread '") {
            // "thread '<name>' panicked at <loc>:" or "thread '<name>' (<tid>) panicked at <loc>:"
            if let Some(idx) = rest.find(" panicked at ") {
                let name = rest[..idx].split("' (").next().unwrap_or("").trim_end_matches('\'').to_string();
                let at = rest[idx + 13..].trim_end_matches(':').to_string();
                let msg = lines.get(j + 1).copied().unwrap_or("").to_string();
                stderr_panics.push(json!({"thread": name, "at": at, "msg": msg}));
            }
        }
    }
    let clean_exit = status.map(|s| s.success()).unwrap_or(false);
    let signal: Option<i32> = {
        use std::os::unix::process::ExitStatusExt;
        status.and_then(|s| s.signal())
    };
    let server_died = !init_ok || (!shutdown_ok && !hang) || (!clean_exit && !hang);
    // per-step results
    let mut results = vec![];
    let mut died = Value::Null;
    for (i, step) in steps.iter().enumerate() {
        let op = step["op"].clone();
        let r = match (&msgs[i].1, pub_index[i]) {
            (Some(id), _) => cl.responses.get(id).map(|resp| {
                if resp.get("error").is_some() {
                    json!({"i": i, "op": op, "error": resp["error"]})
                } else {
                    json!({"i": i, "op": op, "result": resp["result"]})
                }
            }),
            (None, Some(k)) => cl.publishes.get(k).map(|p| json!({"i": i, "op": op, "result": p})),
            _ => Some(json!({"i": i, "op": op, "result": {"closed": true}})),
        };
        match r {
            Some(v) => results.push(v),
            None => {
                if server_died {
                    results.push(json!({"i": i, "op": op, "dead": true,
                        "panic": stderr_panics.last().map(|p| p["msg"].clone()).unwrap_or(Value::Null)}));
                    died = json!({"step": i, "how": "process death (stdout EOF / exit status) at or before this step",
                        "exit_code": status.and_then(|s| s.code()), "signal": signal});
                } else {
                    results.push(json!({"i": i, "op": op, "unanswered": true}));
                }
                break;
            }
        }
    }
    if died.is_null() && server_died {
        // every step was answered but the process did not shut down cleanly
        died = json!({"step": steps.len(), "how": "no clean shutdown after the last step",
                      "exit_code": status.and_then(|s| s.code())});
    }
    json!({
        "id": sess["id"], "mode": "stdio", "pacing": pacing, "results": results, "died": died,
        "hang": hang, "stderr_panics": stderr_panics, "exit_code": status.and_then(|s| s.code()),
        "write_failed": write_failed, "wall_ms": t0.elapsed().as_millis() as u64,
    })
}

fn mode_stdio(bin: &str, path: &str, pacing: &str, timeout: Duration) {
    let file = std::fs::File::open(path).expect("open sessions");
    let out = std::io::stdout();
    let mut out = std::io::BufWriter::new(out.lock());
    for line in BufReader::new(file).lines() {
        let line = line.unwrap();
        if line.trim().is_empty() {
            continue;
        }
        let sess: Value = serde_json::from_str(&line).expect("session json");
        let p = if pacing == "mixed" {
            sess["pacing"].as_str().unwrap_or("lockstep").to_string()
        } else {
            pacing.to_string()
        };
        let v = run_stdio_session(bin, &sess, &p, timeout);
        writeln!(out, "{v}").unwrap();
    }
    out.flush().unwrap();
}

fn main() {
    let args: Vec<String> = std::env::args().collect();
    let ms = |i: usize| -> Duration {
        Duration::from_millis(args.get(i).and_then(|s| s.parse().ok()).unwrap_or(10_000))
    };
    match args.get(1).map(|s| s.as_str()) {
        Some("inproc") if args.len() >= 3 => mode_inproc(&args[2], ms(3)),
        Some("stdio") if args.len() >= 5 => mode_stdio(&args[2], &args[3], &args[4], ms(5)),
        _ => {
            eprintln!("usage: lspdrive inproc <sessions.ndjson> [timeout_ms]\n       lspdrive stdio <lelwel-ls> <sessions.ndjson> <burst|lockstep|delayed|mixed> [timeout_ms]");
            std::process::exit(2);
        }
    }
}
