"""Maps property ids to pipelines."""
from common import ToolError


def run(prop, tier):
    if prop in ("C09", "C10", "C14"):
        import p1
        return p1.judge(prop, tier)
    if prop in ("C01", "C02", "C03", "C04", "C05", "C06", "C07", "C08", "C16"):
        import p2
        return p2.judge(prop, tier)
    if prop in ("C17", "C18"):
        import p5
        return p5.judge(prop, tier)
    if prop == "C19":
        import p6
        return p6.judge(prop, tier)
    if prop == "C20":
        import p7
        return p7.judge(prop, tier)
    if prop in ("C12", "C13"):
        import p4
        return p4.judge(prop, tier)
    if prop == "C11":
        import p3
        return p3.judge(prop, tier)
    if prop == "C15":
        import p8
        return p8.judge(prop, tier)
    raise ToolError("no check for %s" % prop)


def replay(prop, path):
    if prop in ("C09", "C10", "C14"):
        import p1
        return p1.replay(prop, path)
    if prop in ("C01", "C02", "C03", "C04", "C05", "C06", "C07", "C08", "C16"):
        import p2
        return p2.replay(prop, path)
    if prop in ("C17", "C18"):
        import p5
        return p5.replay(prop, path)
    if prop == "C19":
        import p6
        return p6.replay(prop, path)
    if prop == "C20":
        import p7
        return p7.replay(prop, path)
    if prop in ("C12", "C13"):
        import p4
        return p4.replay(prop, path)
    if prop == "C11":
        import p3
        return p3.replay(prop, path)
    if prop == "C15":
        import p8
        return p8.replay(prop, path)
    raise ToolError("no replay for %s" % prop)
