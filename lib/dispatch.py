"""Maps property ids to pipelines."""
from common import ToolError


def run(prop, tier):
    if prop in ("C09", "C10", "C14"):
        import p1
        return p1.judge(prop, tier)
    raise ToolError("no check for %s" % prop)


def replay(prop, path):
    if prop in ("C09", "C10", "C14"):
        import p1
        return p1.replay(prop, path)
    raise ToolError("no replay for %s" % prop)
