"""Maps property ids to pipelines."""
import fcntl
import os

from common import BUILD, ToolError, log

_held = []


def _exclusive(group):
    """Checks of one pipeline share scratch directories under build/cache (generated parsers, compiled
    runners, batch files): two of them running at the same time from the same /verif would overwrite
    each other's files.  They are serialised with an advisory lock held until the process exits."""
    os.makedirs(BUILD, exist_ok=True)
    fh = open(os.path.join(BUILD, "lock-" + group), "w")
    try:
        fcntl.flock(fh, fcntl.LOCK_EX | fcntl.LOCK_NB)
    except OSError:
        log("another check of pipeline %s is running from this directory; waiting for it" % group)
        fcntl.flock(fh, fcntl.LOCK_EX)
    _held.append(fh)



def run(prop, tier):
    if prop in ("C09", "C10", "C14"):
        _exclusive("p1")
        import p1
        return p1.judge(prop, tier)
    if prop in ("C01", "C02", "C03", "C04", "C05", "C06", "C07", "C08", "C16"):
        _exclusive("p2")
        import p2
        return p2.judge(prop, tier)
    if prop in ("C17", "C18"):
        _exclusive("p5")
        import p5
        return p5.judge(prop, tier)
    if prop == "C19":
        _exclusive("p6")
        import p6
        return p6.judge(prop, tier)
    if prop == "C20":
        _exclusive("p7")
        import p7
        return p7.judge(prop, tier)
    if prop in ("C12", "C13"):
        _exclusive("p4")
        import p4
        return p4.judge(prop, tier)
    if prop == "C11":
        _exclusive("p3")
        import p3
        return p3.judge(prop, tier)
    if prop == "C15":
        _exclusive("p8")
        import p8
        return p8.judge(prop, tier)
    raise ToolError("no check for %s" % prop)


def replay(prop, path):
    if prop in ("C09", "C10", "C14"):
        _exclusive("p1")
        import p1
        return p1.replay(prop, path)
    if prop in ("C01", "C02", "C03", "C04", "C05", "C06", "C07", "C08", "C16"):
        _exclusive("p2")
        import p2
        return p2.replay(prop, path)
    if prop in ("C17", "C18"):
        _exclusive("p5")
        import p5
        return p5.replay(prop, path)
    if prop == "C19":
        _exclusive("p6")
        import p6
        return p6.replay(prop, path)
    if prop == "C20":
        _exclusive("p7")
        import p7
        return p7.replay(prop, path)
    if prop in ("C12", "C13"):
        _exclusive("p4")
        import p4
        return p4.replay(prop, path)
    if prop == "C11":
        _exclusive("p3")
        import p3
        return p3.replay(prop, path)
    if prop == "C15":
        _exclusive("p8")
        import p8
        return p8.replay(prop, path)
    raise ToolError("no replay for %s" % prop)
