"""C11 — accepted grammars yield parsers that compile; rejected grammars yield none.

For every grammar of the selection the REAL `llw` binary is run in a scratch directory (generate
mode, then graph mode); when it wrote a parser, the parser is compiled with rustc together with a
lexer-free Token enum and a callback implementation generated mechanically from the emitted trait.
TLC (spec/MC_Codegen.tla) judges the recorded observations against the C11 clauses and classifies
a non-compiling parser with the scoping model of spec/Codegen.tla.
"""
import glob
import os
import random
import shutil
import subprocess

from common import *
import grammar as G
import p1
import p2
import p2gen

LLW_TARGET = os.path.join(BUILD, "llw-target")


def ensure_llw():
    env = dict(os.environ, CARGO_NET_OFFLINE="true", CARGO_TARGET_DIR=LLW_TARGET)
    r = subprocess.run(["cargo", "build", "--offline", "--features", "cli", "--bin", "llw"], cwd=REPO, env=env,
                       stdout=subprocess.PIPE, stderr=subprocess.STDOUT, text=True)
    if r.returncode != 0:
        sys.stderr.write(r.stdout[-4000:])
        raise ToolError("cargo build of llw failed")
    return os.path.join(LLW_TARGET, "debug", "llw")


# ----------------------------------------------------------------------------------------------
# grammars: LL(1) by construction with every operator kind sprinkled in
# ----------------------------------------------------------------------------------------------

class Gen:
    def __init__(self, rng):
        self.rng = rng
        self.ntok = 0
        self.toks = []
        self.nmark = 0
        self.nact = 0
        self.rules = []
        self.nrule = 0

    def tok(self):
        self.ntok += 1
        t = "T%d" % self.ntok
        self.toks.append(t)
        return ("tok", t)

    def epsops(self, in_start, elidable=True):
        ops = []
        r = self.rng.random()
        if r < 0.12 and not in_start:
            ops.append(("rename", "n%d" % self.rng.randint(1, 3)))
        elif r < 0.20 and not in_start and elidable:
            ops.append(("elide",))
        elif r < 0.30:
            self.nact += 1
            ops.append(("act", str(self.nact)))
        elif r < 0.36:
            self.nact += 1
            ops.append(("assert", str(self.nact)))
        elif r < 0.40 and not in_start:
            ops.append(("ret",))
        return ops

    def seq(self, depth, in_start):
        """A concatenation that starts with a fresh token (so every branch is LL(1))."""
        items = [self.tok()]
        n = self.rng.randint(0, 3)
        for _ in range(n):
            r = self.rng.random()
            if depth > 0 and r < 0.18:
                items.append(("opt", self.seq(depth - 1, in_start)))
            elif depth > 0 and r < 0.32:
                items.append(("star", ("paren", self.seq(depth - 1, in_start))))
            elif depth > 0 and r < 0.40:
                items.append(("plus", ("paren", self.seq(depth - 1, in_start))))
            elif depth > 0 and r < 0.55:
                items.append(("paren", ("alt", [self.seq(depth - 1, in_start) for _ in range(self.rng.randint(2, 3))])))
            elif depth > 0 and r < 0.70 and self.nrule < 5:
                items.append(("ref", self.rule(depth - 1)))
            else:
                items.append(self.tok())
            items += self.epsops(in_start)
        if self.rng.random() < 0.25 and not in_start and len(items) >= 2:
            # a properly nested marker / creation pair around a suffix
            self.nmark += 1
            k = self.rng.randint(0, len(items) - 1)
            items = items[:k] + [("mark", str(self.nmark))] + items[k:] + [("create", str(self.nmark), "c%d" % self.rng.randint(1, 2))]
        if len(items) == 1:
            return items[0]
        return ("cat", items)

    def rule(self, depth):
        self.nrule += 1
        name = "r%d" % self.nrule
        elided = self.rng.random() < 0.2
        body = self.seq(depth, False)
        if self.rng.random() < 0.3:
            body2 = self.seq(depth, False)
            body = ("alt", [body, body2])
        if elided and self.rng.random() < 0.5:
            # whole-rule creation in an unconditionally elided rule
            if body[0] == "cat":
                body = ("cat", body[1] + [("create", "", "w%d" % self.rng.randint(1, 2))])
        self.rules.append({"name": name, "elided": elided, "body": body})
        return name


def strip_elide_in_elided(rules):
    """`^` inside an elided rule only draws a warning (W004); keep it: warnings are allowed."""
    return rules


def random_accepted(rng, name):
    g = Gen(rng)
    start_body = g.seq(2, True)
    if rng.random() < 0.3:
        start_body = ("star", ("paren", start_body))
    rules = [{"name": "s", "elided": False, "body": start_body}] + g.rules
    gr = {"name": name, "tokens": [{"name": t, "sym": ""} for t in g.toks] + [{"name": "W", "sym": ""}],
          "skip": ["W"], "right": [], "start": "s", "parts": [], "rules": rules}
    if g.rules and rng.random() < 0.3:
        gr["parts"] = [g.rules[-1]["name"]]
    if rng.random() < 0.15:
        gr["rules"].append({"name": "unusedpart", "elided": False, "body": ("plus", g.tok())})
        gr["tokens"].append({"name": g.toks[-1], "sym": ""})
        gr["parts"].append("unusedpart")
    if rng.random() < 0.1:
        gr["rules"].append({"name": "empty", "elided": False, "body": None})
        # reference it so that it is used
        b = gr["rules"][0]["body"]
        gr["rules"][0]["body"] = ("cat", [("paren", b), ("ref", "empty")]) if b[0] not in ("cat",) else ("cat", b[1] + [("ref", "empty")])
    return gr


def rejected_variants(rng, texts):
    """Grammars carrying a semantic error of each kind (by text surgery on accepted ones)."""
    out = []
    surg = [
        ("undef_rule", lambda t: t.replace("start s;", "start s;\nzz: nosuchrule;", 1)),
        ("undef_token", lambda t: t.replace("start s;", "start s;\nzz: NOSUCH;", 1)),
        ("redef", lambda t: t + "s: T1;\n"),
        ("two_starts", lambda t: t.replace("start s;", "start s;\nstart s;", 1)),
        ("upper_rule", lambda t: t + "Zz: T1;\n"),
        ("ref_start", lambda t: t + "zz: s;\n"),
        ("conflict", lambda t: t + "zz: T1 | T1 T1;\n"),
        ("skip_used", lambda t: t + "zz: W;\n"),
        ("pred_pos", lambda t: t + "zz: T1 ?1 T1;\n"),
        ("elide_start", lambda t: t.replace("s:", "s^:", 1)),
        ("syntax", lambda t: t + "zz: (T1;\n"),
        ("no_start", lambda t: t.replace("start s;", "", 1)),
        ("undef_marker", lambda t: t + "zz: T1 7>x;\n"),
        ("nested_choice", lambda t: t + "zz: (T1 (T1 / T1 T1) / T1);\n"),
    ]
    for i, t in enumerate(texts):
        nm, f = surg[i % len(surg)]
        out.append(("rej_%s_%d" % (nm, i), f(t)))
    return out


ECODE_FAMILY = [
    ("E002", "token A B; start s; s: A ?1 B;"),
    ("E002", "token A B; start s; s: (A ?1)* B;"),
    ("E003", "token A; start s; s: A nosuch;"),
    ("E004", "token A; start s; s: A B;"),
    ("E004", "token A; start s; s: A '+';"),
    ("E005", "token A; start s; s: A; s: A A;"),
    ("E005", "token A A; start s; s: A;"),
    ("E005", "token A='x' B='x'; start s; s: A B;"),
    ("E006", "token A; start s; s: A Bad; Bad: A;"),
    ("E007", "token A bad; start s; s: A bad;"),
    ("E008", "token A; s: A;"),
    ("E009", "token A; start s; s: A t; t: s;"),
    ("E010", "token A Error; start s; s: A;"),
    ("E010", "token A EOFx; start s; s: A;"),
    ("E010", "token A; start s; s: A error; error: A;"),
    ("E011", "token A B; start s; s: A B | A;"),
    ("E012", "token A N; start s; s: e A; e: e A | N;"),
    ("E013", "token A; start s; s: A* A;"),
    ("E014", "token A; start s; s: [A] A;"),
    ("E015", "token A; start s; s: A t; t: t;"),
    ("E015", "token A; start s; s: A t; t: ?1 t | A;"),
    ("E016", "token A W; skip W W; start s; s: A;"),
    ("E017", "token A W; skip W; start s; s: A W;"),
    ("E018", "token A; skip s; start s; s: A;"),
    ("E018", "token A; right s; start s; s: A;"),
    ("E019", "token A P='+'; right '+' P; start s; s: A;"),
    ("E020", "token N P M; right P; start s; s: e; e: e (P | M) e | N;"),
    ("E021", "token A B; start s; s: e; e^: e A | B;"),
    ("E021", "token A B; start s; s: e; e: e A ^ | B;"),
    ("E022", "token A B; start s; s: t; t: <1 A <1 B 1>x;"),
    ("E023", "token A B; start s; s: t; t: A B 3>x;"),
    ("E024", "token A B; start s; s: t; t: (<1 A) B 1>x;"),
    ("E024", "token A B; start s; s: t; t: [<1 A] B 1>x;"),
    ("E025", "token A B; start s; s: e; e: e A > | B >;"),
    ("E025", "token N P; start s; s: e; e: e P e | N >lit;"),
    ("E025", "token N P; start s; s: e; e: e P e >bin | N;"),
    ("E025", "token N P M; start s; s: e; e: e P e | e M e | N >lit;"),
    ("E025", "token N P U; start s; s: e; e: U e >neg | e P e | N;"),
    ("E025", "token N P B; start s; s: e; e: e P e | e B | N >lit;"),
    ("E026", "token A; start A; s: A;"),
    ("E026", "token A; start s; part A; s: A;"),
    ("E027", "token A; start s; s: t; t: A @;"),
    ("E028", "token A B; start s; s: (A (A / A B) / A);"),
    ("E028", "token A B; start s; s: (t / A); t: (A / A B);"),
    ("E029", "token A B; start s; s: (A #1 B / A);"),
    ("E030", "token A B; start s; s: A & B;"),
    ("E031", "token A; start s; start t; s: A; t: A;"),
    ("E032", "token A; start s; s^: A;"),
    ("E032", "token A B; start s; s: A ^ | B;"),
    ("E033", "token A; start s; part t t; s: t; t: A;"),
    ("E034", "token A; start s; part s; s: A;"),
]


MARKER_SKELETONS = [
    ("altlone", "t", "t: ({0} | {1} A {2} B {3}) {4} C {5};"),
    ("opt", "t", "t: {0} A [{1} B {2}] {3} C {4};"),
    ("star", "t", "t: {0} A ({1} B {2})* {3} C {4};"),
    ("alt", "t", "t: ({0} A {1} | {2} B {3}) {4} C {5};"),
    ("choice", "t", "t: {0} A ({1} B {2} / {3} B C {4}) {5};"),
    ("elided", "t", "t^: {0} A ({1} B {2})+ {3};"),
    ("start", "s", "s: {0} A [{1} B {2}] {3};"),
]


def marker_family():
    """Scope of node markers: `<1` in slot i and `1>x` in slot j of every skeleton, for every pair of
    slots (the same slot included), and the whole-rule creation `>x` in every slot.  Whatever lelwel
    decides about such a grammar, it either rejects it or emits code that compiles."""
    out = []
    for nm, rule, sk in MARKER_SKELETONS:
        k = sk.count("{")
        head = "token A B C D;\nstart s;\n" + ("" if rule == "s" else "s: t D;\n")
        fills = []
        for i in range(k):
            for j in range(k):
                f = [""] * k
                f[i] = "<1"
                f[j] = (f[j] + " 1>x").strip()
                fills.append(("m%dc%d" % (i, j), f))
            f = [""] * k
            f[i] = ">x"
            fills.append(("w%d" % i, f))
        for tag, f in fills:
            out.append(("marker_%s_%s" % (nm, tag), head + " ".join(sk.format(*f).split()) + "\n"))
    return out


def selection(tier):
    rng = random.Random(seed())
    texts = []
    for f in p2.corpus_files():
        texts.append((os.path.basename(f)[:-4], open(f).read(), "corpus"))
    files = sorted(glob.glob(os.path.join(REPO, "examples", "*", "src", "*.llw"))) + \
        [os.path.join(REPO, "src", "frontend", "lelwel.llw")] + \
        sorted(glob.glob(os.path.join(REPO, "tests", "frontend", "*.llw")))
    for f in files:
        texts.append(("repo_" + os.path.basename(f)[:-4] + ("_t" if "/tests/" in f else ""), open(f).read(), "repo"))
    n = 120 if tier == "quick" else 1500
    acc = []
    for i in range(n):
        g = random_accepted(rng, "ra%d" % i)
        acc.append(G.render(g))
        texts.append((g["name"], acc[-1], "random"))
    # every tiny grammar (a lone option / loop / empty paren as the whole start rule, ...)
    for g in p1.enumerated(3 if tier == "quick" else 4):
        texts.append((g["name"], G.render(g), "enumerated"))
    for g in p1.pred_family() + p1.pratt_family(rng, 40 if tier == "quick" else 400) + p1.eps_family(3 if tier == "quick" else 4):
        texts.append((g["name"], G.render(g), "family"))
    for nm, t in rejected_variants(rng, acc[: (70 if tier == "quick" else 600)]):
        texts.append((nm, t, "rejected"))
    for nm, t in marker_family():
        texts.append((nm, t, "family"))
    for k, (code, t) in enumerate(ECODE_FAMILY):
        texts.append(("ecode_%s_%d" % (code, k), t.replace("; ", ";\n") + "\n", "ecode"))
    return texts


# ----------------------------------------------------------------------------------------------

def observe(llw, name, text):
    wd = cache_dir("p3", name)
    for f in os.listdir(wd):
        p = os.path.join(wd, f)
        shutil.rmtree(p) if os.path.isdir(p) else os.remove(p)
    gpath = os.path.join(wd, "g.llw")
    with open(gpath, "w") as fh:
        fh.write(text)
    os.makedirs(os.path.join(wd, "out"))
    e = probe(["export", gpath])[0]
    rec = {"name": name, "text": text, "sema_panic": "panic" in e}
    rec["accepted"] = ("panic" not in e) and not e.get("haserror", True)
    rec["codes"] = [d["code"] for d in e.get("diags", [])] if "panic" not in e else []
    r = subprocess.run([llw, "-o", "out", "g.llw"], cwd=wd, stdout=subprocess.PIPE, stderr=subprocess.PIPE, text=True,
                       timeout=120)
    rec["exit"] = r.returncode
    rec["codegen_panic"] = r.returncode == 101 or "panicked at" in r.stderr
    rec["panic_msg"] = next((l for l in r.stderr.splitlines() if "panicked at" in l), "")
    gen = os.path.join(wd, "out", "generated.rs")
    rec["written"] = os.path.exists(gen)
    rec["skeletons"] = [f for f in ("lexer.rs", "parser.rs") if os.path.exists(os.path.join(wd, f))]
    # graph output in its own directory
    gd = os.path.join(wd, "graph")
    os.makedirs(gd)
    shutil.copy(gpath, os.path.join(gd, "g.llw"))
    os.makedirs(os.path.join(gd, "out"))
    r2 = subprocess.run([llw, "-g", "-o", "out", "g.llw"], cwd=gd, stdout=subprocess.PIPE, stderr=subprocess.PIPE,
                        text=True, timeout=120)
    rec["graphok"] = not (r2.returncode == 101 or "panicked at" in r2.stderr)
    rec["graph_panic"] = next((l for l in r2.stderr.splitlines() if "panicked at" in l), "")
    rec["compiled"] = False
    rec["rustc"] = []
    rec["hasg"] = False
    if rec["written"] and rec["accepted"]:
        with open(gen) as fh:
            src = fh.read()
        main = os.path.join(wd, "main.rs")
        with open(main, "w") as fh:
            fh.write(p2gen.module_source(e, gen, src))
        rc = subprocess.run(["rustc", "--edition", "2024", "-C", "opt-level=0", "-C", "debuginfo=0", "--emit=metadata",
                             "-o", os.path.join(wd, "runner.rmeta"), main], stdout=subprocess.PIPE,
                            stderr=subprocess.STDOUT, text=True)
        rec["compiled"] = rc.returncode == 0
        rec["rustc"] = [l for l in rc.stdout.splitlines() if l.startswith("error")][:4]

        class B:
            pass
        b = B()
        b.export = e
        b.res = {"bin": os.path.join(wd, "runner")}
        try:
            rec["g"] = p2.machine_grammar(b)
            rec["hasg"] = True
        except Exception:
            rec["hasg"] = False
    if not rec["hasg"]:
        rec["g"] = {"start": "", "rules": [], "nodes": []}
    return rec


def judge(prop, tier):
    rep = Report("C11", tier, "exploration")
    ensure_harness()
    llw = ensure_llw()
    sel = selection(tier)
    recs = parallel(lambda t: observe(llw, t[0], t[1]), sel)
    origin = {t[0]: t[2] for t in sel}
    d = cache_dir("p3")
    lean = []
    for r in recs:
        x = {k: r[k] for k in ("accepted", "written", "compiled", "graphok", "codegen_panic", "hasg", "g")}
        x["expect"] = r["name"].split("_")[1] if r["name"].startswith("ecode_") else ""
        x["codes"] = r.get("codes", [])
        lean.append(x)
    # binding self-test: an accepted grammar whose parser "did not compile"
    st = None
    for r in lean:
        if r["accepted"] and r["compiled"]:
            st = dict(r, compiled=False)
            break
    if st:
        lean.append(st)
    rfile = os.path.join(d, "R-C11-%s.ndjson" % tier)
    write_ndjson(rfile, lean)
    res = run_tlc("MC_Codegen", "MC_Codegen.cfg", env={"RFILE": rfile}, workers=4, timeout=1200, xmx="3g", job="p3-C11")
    if not res.ok:
        log(res.raw[-2000:])
        raise ToolError("TLC judge failed for C11: %s" % res.error)
    vs = [v for v in res.payload("V") if v]
    if st and not any(v["i"] == len(recs) + 1 for v in vs):
        raise ToolError("binding self-test failed: corrupted C11 record accepted")
    drift = [v for v in res.payload("DRIFT") if v]
    for v in vs:
        if v["i"] > len(recs):
            continue
        r = recs[v["i"] - 1]
        cause = "+".join(sorted(v["cause"])) if v["cause"] else ""
        if v["why"] == "not_compiling":
            key = "C11:not_compiling:%s" % (cause or "unpredicted:" + r["name"])
        elif v["why"] in ("graph_output_failed", "codegen_panic"):
            msg = r["graph_panic"] or r["panic_msg"]
            loc = msg.split("panicked at ")[-1].split(":")[0:2]
            key = "C11:%s:%s" % (v["why"], ":".join(loc))
        else:
            key = "C11:%s:%s" % (v["why"], r["name"])
        desc = "C11/%s grammar %s (%s): accepted=%s written=%s compiled=%s rustc=%s %s" % (
            v["why"], r["name"], origin.get(r["name"]), r["accepted"], r["written"], r["compiled"], r["rustc"][:2],
            r["graph_panic"] or r["panic_msg"])
        rep.violation(key, desc, {"property": "C11", "why": v["why"], "cause": cause, "grammar": r["name"],
                                  "grammar_text": r["text"], "observed": {k: r[k] for k in r if k not in ("g", "text")}})
    acc = [r for r in recs if r["accepted"]]
    ecode_accepted = [r["name"] for r in recs if origin[r["name"]] == "ecode" and r["accepted"]]
    rep.coverage = {
        "evaluations": len(recs), "distinct_nontrivial": len({r["text"] for r in acc if r["written"]}) + len({r["text"] for r in recs if not r["accepted"]}),
        "rule": "one llw invocation + one rustc compilation per distinct grammar text; non-trivial: accepted grammars whose "
                "parser was written and compiled, and rejected grammars (checked for absence of output)",
        "samples": [{"grammar": r["text"], "accepted": r["accepted"], "compiled": r["compiled"]} for r in recs[::max(1, len(recs) // 5)][:6]],
        "accepted": len(acc), "rejected": len(recs) - len(acc),
        "compiled": sum(1 for r in acc if r["compiled"]),
        "by_origin": {o: sum(1 for r in recs if origin[r["name"]] == o) for o in set(origin.values())},
        "tlc_states": res.distinct, "model_drift": len(drift),
        "error_code_family_accepted_by_lelwel": ecode_accepted,
        "binding_selftest": {"corrupted": 1 if st else 0, "rejected": 1 if st else 0},
        "exhaustive": False,
        "explanation": "rustc and llw are observed, not modelled (DESIGN 5 C11: exploration level); TLC judges the "
                       "recorded observations and classifies failures with spec/Codegen.tla",
    }
    rep.assumptions = ["the callback implementation generated from the emitted trait stands for 'any lexer and callback implementation that matches the trait'",
                       "acceptance is read from lelwel's diagnostics (probe export); the exit status is C19's business"]
    return rep


def replay(prop, path):
    with open(path) as fh:
        r = json.load(fh)
    ensure_harness()
    rec = observe(ensure_llw(), "replay", r["grammar_text"])
    print(json.dumps({k: rec[k] for k in rec if k not in ("g",)}, indent=1))
    return 0 if (not rec["accepted"] or (rec["compiled"] and rec["graphok"])) else 1
