"""C15 — reproducible output, independent of declaration order.

Model level: spec/SemaAlgo.tla (the analysis passes as chaotic iterations under ANY visiting
order reach the fixpoints of Grammar.tla) is model-checked on small grammars.
Code level: every grammar of the selection is rewritten under permutations of its top-level
declarations and analysed by the real lelwel; canonical views (sets keyed by rule#index,
diagnostic multisets, rule attributes, behaviour of the generated parser on all inputs up to a
bound) must be equal to those of the original order; and the real `llw` is run twice in fresh
processes with different working and output directories: generated.rs must be byte-identical and
the rendered diagnostics equal.  TLC (MC_Order) is the judge of the recorded pairs.
"""
import glob
import hashlib
import itertools
import os
import random
import re
import shutil
import subprocess

from common import *
import grammar as G
import p1
import p2
import p2gen
import p3


def split_decls(text):
    """Top-level declarations of a grammar text (comments are kept with the following declaration)."""
    out, cur, q = [], "", False
    i = 0
    while i < len(text):
        c = text[i]
        cur += c
        if q:
            if c == "\\" and i + 1 < len(text):
                cur += text[i + 1]
                i += 1
            elif c == "'":
                q = False
        elif c == "'":
            q = True
        elif c == "/" and text[i + 1:i + 2] == "/":
            j = text.find("\n", i)
            j = len(text) if j < 0 else j
            cur += text[i + 1:j + 1]
            i = j
        elif c == "/" and text[i + 1:i + 2] == "*":
            j = text.find("*/", i + 2)
            j = len(text) - 2 if j < 0 else j
            cur += text[i + 1:j + 2]
            i = j + 1
        elif c == ";":
            out.append(cur.strip())
            cur = ""
        i += 1
    if cur.strip():
        out.append(cur.strip())
    return out


def canonical(e):
    """Order-independent view of an export."""
    if "panic" in e:
        return {"sets": [["panic", e["panic"]]], "diags": [], "rules": []}
    key = {}
    for r in e["rules"]:
        if r["body"]:
            # nodes of the rule are the pre-order block starting at body
            stack = [r["body"]]
            order = []
            while stack:
                n = stack.pop()
                order.append(n)
                for c in reversed(e["nodes"][n - 1]["c"]):
                    stack.append(c)
            for idx, n in enumerate(order):
                key[n] = "%s#%d" % (r["name"], idx)
    sets = []
    for i, n in enumerate(e["nodes"], 1):
        sets.append([key.get(i, "?%d" % i), n["k"], n["first"] or [], n["follow"] or [], n["predict"] or [],
                     n["recovery"] if n["recovery"] is not None else ["<none>"], n["elision"], n["inchoice"]])
    sets.sort(key=lambda x: x[0])
    text_of = {}
    diags = []
    for d in e["diags"]:
        lab = d["labels"][0] if d["labels"] else None
        node = key.get(lab["node"], "") if lab and lab["node"] else ""
        # the conflicting token sets are part of the message of a related label
        rel = sorted(l["msg"] for l in d["labels"][1:])
        diags.append([d["code"], d["sev"], d["msg"], node, rel])
    diags.sort(key=lambda x: json.dumps(x))
    rules = sorted([r["name"], r["elided"], r["used"], r["inchoice"], r["has_rename"], r["has_creation"],
                    json.dumps([[b["kind"], key.get(b["node"], ""), b["left"], b["right"], b["bp"]] for b in r["recursive"]]),
                    r["ispart"]] for r in e["rules"])
    return {"sets": sets, "diags": diags, "rules": rules}


def selection(tier):
    rng = random.Random(seed())
    texts = []
    for f in p2.corpus_files():
        texts.append((os.path.basename(f)[:-4], open(f).read()))
    for f in sorted(glob.glob(os.path.join(REPO, "tests", "frontend", "*.llw"))) + \
            sorted(glob.glob(os.path.join(REPO, "examples", "*", "src", "*.llw"))):
        texts.append(("repo_" + os.path.basename(f)[:-4], open(f).read()))
    n = 30 if tier == "quick" else 300
    for i in range(n):
        texts.append(("ra%d" % i, G.render(p3.random_accepted(rng, "ra%d" % i))))
    for g in p1.pratt_family(rng, 20 if tier == "quick" else 200) + p1.pred_family() + p1.randoms(rng, 30 if tier == "quick" else 300):
        texts.append((g["name"], G.render(g)))
    return texts, rng


def judge(prop, tier):
    rep = Report("C15", tier, "model_checking")
    ensure_harness()
    llw = p3.ensure_llw()
    # ---- model level: any visiting order reaches the same fixpoints -----------------------
    model = {"grammars": 0, "states": 0, "transitions": 0}
    mfiles = [f for f in p2.corpus_files() if os.path.basename(f)[:3] in ("a06", "a14", "a15", "c01", "e01", "b05")]
    if tier == "thorough":
        mfiles = [f for f in p2.corpus_files() if os.path.basename(f)[0] in "abce"]

    def mc(f):
        e = probe(["export", f])[0]
        gfile = os.path.join(cache_dir("p8"), "G-%s.ndjson" % os.path.basename(f))
        write_ndjson(gfile, [G.export_to_tlc(e)])
        return f, run_tlc("MC_SemaAlgo", "MC_SemaAlgo.cfg", env={"GFILE": gfile}, workers=2, timeout=1200,
                          job="p8-sema-" + os.path.basename(f))
    for f, res in parallel(mc, mfiles, jobs=6):
        if not res.ok:
            log(res.raw[-2000:])
            raise ToolError("SemaAlgo model check failed on %s: %s %s" % (f, res.violated, res.error))
        model["grammars"] += 1
        model["states"] += res.distinct
        model["transitions"] += res.generated
    # ---- code level: permutations ------------------------------------------------------------
    texts, rng = selection(tier)
    batch = []
    for name, text in texts:
        decls = split_decls(text)
        if len(decls) < 2:
            continue
        if len(decls) <= 5:
            perms = list(itertools.permutations(range(len(decls))))[1:]
            rng.shuffle(perms)
            perms = perms[: (6 if tier == "quick" else 119)]
        else:
            perms = []
            for _ in range(3 if tier == "quick" else 10):
                p = list(range(len(decls)))
                rng.shuffle(p)
                perms.append(tuple(p))
            perms.append(tuple(reversed(range(len(decls)))))
        batch.append({"name": name, "text": text, "base": True, "of": name})
        for k, p in enumerate(perms):
            batch.append({"name": "%s~%d" % (name, k), "text": ";\n".join(decls[i].rstrip(";") for i in p) + ";\n"
                          if all(d.endswith(";") for d in decls) else "\n".join(decls[i] for i in p) + "\n",
                          "base": False, "of": name})
    d = cache_dir("p8")
    inp = os.path.join(d, "texts-%s.ndjson" % tier)
    write_ndjson(inp, [{"name": b["name"], "text": b["text"]} for b in batch])
    exports = probe(["export-texts", inp], timeout=1800)
    views = {b["name"]: canonical(e) for b, e in zip(batch, exports)}
    nsyn = {b["name"]: e.get("nsyntax", 0) for b, e in zip(batch, exports)}
    recs, meta = [], []
    empty = {"code": "", "stderr": "", "runs": []}
    for b in batch:
        if b["base"]:
            continue
        if nsyn[b["of"]] != nsyn[b["name"]]:
            # the permutation moved a syntax error; such texts are outside the quantifier
            continue
        recs.append({"a": dict(views[b["of"]], **empty), "b": dict(views[b["name"]], **empty)})
        meta.append(("perm", b["of"], b["name"], b["text"]))
    # ---- behaviour of the generated parser under permutation (a few grammars) ------------------
    beh = [f for f in p2.corpus_files() if os.path.basename(f)[:3] in ("a06", "b05", "c04", "d06", "e01", "b02")]
    if tier == "thorough":
        beh = [f for f in p2.corpus_files()]

    def behaviour(f):
        text = open(f).read()
        decls = split_decls(text)
        p = list(range(len(decls)))
        random.Random(seed()).shuffle(p)
        ptext = "\n".join(decls[i] for i in p) + "\n"
        name = os.path.basename(f)[:-4]
        out = []
        for tag, t in (("o", text), ("p", ptext)):
            res = p2gen.build_runner(name + "_" + tag, t, cache_dir("p8", name + "_" + tag))
            if not res["ok"]:
                return None
            e = res["export"]
            alpha, skips = p2.alphabet_for(e)
            alpha = sorted(alpha)
            n = p2.bound_for(len(alpha) + len(skips), 800)
            outs, ab = p2gen.run_runner(res["bin"], cache_dir("p8", name + "_" + tag), alpha + skips, n,
                                        entries=["start"] + sorted(e.get("semaparts", [])), skips=skips, events=False)
            out.append(sorted(json.dumps([o["en"] if not e.get("semaparts") else 0, o["w"], o["flat"], o["diags"], o["panic"]]) for o in outs
                              if o["en"] == 0))
        return name, text, ptext, out
    for r in parallel(behaviour, beh, jobs=6):
        if not r:
            continue
        name, text, ptext, out = r
        z = {"sets": [], "diags": [], "rules": [], "code": "", "stderr": ""}
        recs.append({"a": dict(z, runs=[hashlib.sha1("".join(out[0]).encode()).hexdigest(), len(out[0])]),
                     "b": dict(z, runs=[hashlib.sha1("".join(out[1]).encode()).hexdigest(), len(out[1])])})
        meta.append(("behaviour", name, name + "~perm", ptext))
    # ---- two runs of the real tool in fresh processes, different directories --------------------
    def twice(t):
        name, text = t
        res = []
        for k in range(2 if tier == "quick" else 4):
            wd = cache_dir("p8", "run", name, "dir%d" % k, *(["deeper"] * k))
            for fn in os.listdir(wd):
                pth = os.path.join(wd, fn)
                shutil.rmtree(pth) if os.path.isdir(pth) else os.remove(pth)
            with open(os.path.join(wd, "g.llw"), "w") as fh:
                fh.write(text)
            out = os.path.join(wd, "o%d" % k)
            os.makedirs(out)
            r = subprocess.run([llw, "-o", "o%d" % k, "g.llw"], cwd=wd, stdout=subprocess.PIPE, stderr=subprocess.PIPE,
                               text=True, timeout=120, env=dict(os.environ, NO_COLOR="1"))
            gen = os.path.join(out, "generated.rs")
            code = hashlib.sha1(open(gen, "rb").read()).hexdigest() if os.path.exists(gen) else "<none>"
            res.append((code, r.stderr, r.returncode))
        return name, text, res
    sample = texts[:: (4 if tier == "quick" else 1)]
    for name, text, res in parallel(twice, sample):
        z = {"sets": [], "diags": [], "rules": [], "runs": []}
        for k in range(1, len(res)):
            recs.append({"a": dict(z, code=res[0][0], stderr=res[0][1] + "#%d" % res[0][2]),
                         "b": dict(z, code=res[k][0], stderr=res[k][1] + "#%d" % res[k][2])})
            meta.append(("rerun", name, "%s#run%d" % (name, k), text))
    # binding self-test
    import copy
    st = copy.deepcopy(recs[0])
    st["b"]["sets"] = st["b"]["sets"][1:] if st["b"]["sets"] else [["x"]]
    recs.append(st)
    # sharded: one TLC run per 3000 records (the thorough tier has tens of thousands of views)
    CH = 3000
    chunks = [(k, recs[k:k + CH]) for k in range(0, len(recs), CH)]

    def judge_chunk(ch):
        k, rs = ch
        rfile = os.path.join(d, "R-%s-%d.ndjson" % (tier, k))
        write_ndjson(rfile, rs)
        r = run_tlc("MC_Order", "MC_Order.cfg", env={"RFILE": rfile}, workers=2, timeout=3600, xmx="3g",
                    job="p8-order-%d" % k)
        if not r.ok:
            log(r.raw[-2000:])
            raise ToolError("TLC judge failed for C15: %s" % r.error)
        return k, r
    vs = []
    states = generated = 0
    wall = 0.0
    for k, r in parallel(judge_chunk, chunks, jobs=4):
        states += r.distinct
        generated += r.generated
        wall += r.wall
        for v in r.payload("V"):
            if v:
                vs.append(dict(v, i=v["i"] + k))

    class _Res:
        pass
    res = _Res()
    res.distinct, res.generated, res.wall = states, generated, wall
    if not any(v["i"] == len(recs) for v in vs):
        raise ToolError("binding self-test failed for C15")
    for v in vs:
        if v["i"] >= len(recs):
            continue
        kind, of, name, text = meta[v["i"] - 1]
        key = "C15:%s:%s:%s" % (v["why"], kind, of)
        a, b = recs[v["i"] - 1]["a"], recs[v["i"] - 1]["b"]
        fld = {"analysis_sets": "sets", "diagnostics": "diags", "rule_attributes": "rules", "generated_code": "code",
               "rendered_diagnostics": "stderr", "parser_behaviour": "runs"}[v["why"]]
        diff = [x for x in (a[fld] if isinstance(a[fld], list) else [a[fld]]) if x not in (b[fld] if isinstance(b[fld], list) else [b[fld]])][:3]
        rep.violation(key, "C15/%s (%s) for %s: e.g. %s" % (v["why"], kind, name, json.dumps(diff)[:300]),
                      {"property": "C15", "why": v["why"], "kind": kind, "grammar": of, "variant_text": text,
                       "only_in_reference": diff})
    rep.coverage = {
        "states": model["states"] + res.distinct, "transitions": model["transitions"] + res.generated,
        "traces_validated_against_impl": len(recs) - 1,
        "samples": [{"kind": m[0], "grammar": m[1], "variant": m[3][:300]} for m in meta[:: max(1, len(meta) // 5)][:6]],
        "evaluations": len(recs) - 1,
        "distinct_nontrivial": sum(1 for m in meta if m[0] == "perm") + sum(1 for m in meta if m[0] == "behaviour"),
        "rule": "one record per (grammar, permutation of its top-level declarations) with all analysis sets and diagnostics, "
                "per (grammar, permutation) behaviour comparison of the generated parsers on all inputs up to a bound, and per "
                "(grammar, repeated run in a fresh process and directory); non-trivial = permutation and behaviour records",
        "model": model, "pairs": {k: sum(1 for m in meta if m[0] == k) for k in ("perm", "behaviour", "rerun")},
        "binding_selftest": {"corrupted": 1, "rejected": 1}, "exhaustive": False,
        "bounds": {"all_permutations_up_to_declarations": 5},
    }
    rep.assumptions = ["byte identity is required for the same declaration order only; across permutations analysis sets, "
                       "diagnostic multisets and parser behaviour are compared through the rule#index numbering",
                       "fresh-process reruns are observations (exploration), the SemaAlgo model check is exhaustive for its grammars"]
    return rep


def replay(prop, path):
    with open(path) as fh:
        r = json.load(fh)
    print(json.dumps(r, indent=1)[:3000])
    return 1
