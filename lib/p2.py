"""Pipeline P2 — generated parsers (C01 C02 C03 C04 C05 C06 C16; C07/C08 build on it).

For every grammar of the selection: lelwel generates the parser from /repo's current tree, the
runner (p2gen) enumerates every input up to a length bound over the grammar's alphabet plus a
skipped token and `Error`, with every predicate/assertion outcome script, and records the
outcome of the REAL parser; TLC then judges the recorded outcomes against the contract
specifications (MC_P2J) and explores the machine specification on the same points (MC_P2M).
"""
import glob
import os
import subprocess
import time

from common import *
import grammar as G
import p2gen


def corpus_files():
    return sorted(glob.glob(os.path.join(VERIF, "corpus", "*.llw")))


def features(e):
    kinds = {n["k"] for n in e["nodes"]}
    leftrec = any(any(b["kind"] in ("left", "leftright") for b in r["recursive"]) for r in e["rules"])
    return {
        "pred": "pred" in kinds, "predicate_user": any(n["k"] == "pred" and n["num"] != "t" for n in e["nodes"]),
        "assert": "assert" in kinds, "oc": "oc" in kinds, "leftrec": leftrec,
        "empty_rule": any(r["body"] == 0 for r in e["rules"]), "act": "act" in kinds,
        "skip": bool(e.get("semaskip")), "parts": bool(e.get("semaparts")),
        "nodeops": bool(kinds & {"rename", "elide", "mark", "create"}) or any(r["elided"] for r in e["rules"]),
    }


SELECT = {
    "C01": lambda f: True,
    "C02": lambda f: True,
    "C03": lambda f: True,
    "C16": lambda f: True,
    "C04": lambda f: not (f["pred"] or f["assert"]),
    "C06": lambda f: not (f["pred"] or f["assert"] or f["oc"]),
    "C05": lambda f: not (f["pred"] or f["assert"] or f["oc"] or f["leftrec"] or f["empty_rule"]),
    "C08": lambda f: f["oc"],
    "C07": lambda f: f["leftrec"] and not (f["pred"] or f["assert"] or f["oc"]),
}


def alphabet_for(e, with_skips=True):
    used = [t["name"] for t in e["tokens"] if t["used"] and t["name"] not in e.get("semaskip", [])]
    alpha = used[:5]
    skips = []
    if with_skips:
        # `Error` and declared skip tokens go through the same arms of the runtime; one of them keeps the
        # alphabet small enough for one more token of input length (grammars without a skip declaration,
        # and two-skip grammars, still exercise `Error`)
        if e.get("semaskip"):
            skips.append(e["semaskip"][0])
            if len(alpha) < 4:
                skips.append("Error")
        else:
            skips.append("Error")
    return alpha, skips


def bound_for(a, cap):
    n, total = 0, 1
    while True:
        nxt = total + a ** (n + 1)
        if nxt > cap:
            return n
        total = nxt
        n += 1


def sigs_of_flat(flat):
    """Shapes of all rule nodes of the final tree, in the format of the runner's subtree_sig."""
    out = []

    def rec(i, buf):
        if i >= len(flat):
            buf.append("!")
            return i + 1
        n = flat[i]
        if n[0] == "t":
            buf.append("%s.%d " % (n[1], n[2]))
            return i + 1
        end = i + n[2]
        mine = ["(%s " % n[1]]
        j = i + 1
        while j <= end:
            j = rec(j, mine)
        mine.append(")")
        if j != end + 1:
            mine.append("#")
        s = "".join(mine)
        out.append(s)
        buf.append(s)
        return end + 1
    if flat:
        rec(0, [])
    return out


def pratt_corpus(tier):
    """Pratt grammars enumerated by shape: branch kinds x order x right-declarations (C07)."""
    import itertools, random
    rng = random.Random(seed())
    T = lambda x: ("tok", x)
    E = ("ref", "e")
    cat = lambda *xs: ("cat", list(xs))
    pool = {
        "add": cat(E, T("P"), E), "mul": cat(E, T("M"), E), "pow": cat(E, T("H"), E),
        "two": cat(E, ("paren", ("alt", [T("P"), T("M")])), E),
        "neg": cat(T("U"), E), "post": cat(E, T("B")),
        "tern": cat(E, T("Q"), E, T("C"), E), "idx": cat(E, T("L"), E, T("R")),
        "par": cat(T("L"), E, T("R")),
        "radd": cat(E, T("P"), E, ("rename", "bin")),
    }
    names = sorted(pool)
    combos = []
    for k in (1, 2, 3):
        for c in itertools.combinations(names, k):
            toks = [l[1] for n in c for l in G.leaves_of(pool[n]) if l[0] == "tok"]
            if len(set(toks)) != len(toks) and not ({"par", "idx"} <= set(c)):
                continue  # operators must be distinct (conflict-free)
            if {"par", "idx"} <= set(c) or ({"add", "radd"} <= set(c)) or ({"two"} & set(c) and {"add", "mul", "radd"} & set(c)):
                continue
            combos.append(c)
    rng.shuffle(combos)
    out = []
    limit = 36 if tier == "quick" else 150
    for c in combos:
        orders = list(itertools.permutations(c))
        rng.shuffle(orders)
        for order in orders[: (1 if tier == "quick" else 3)]:
            ops = [t for t in ("P", "M", "H", "Q") if any(l == ("tok", t) for n in order for l in G.leaves_of(pool[n]))]
            subsets = [()] + [(o,) for o in ops] + ([tuple(ops)] if len(ops) > 1 else [])
            if "two" in order:
                subsets = [(), ("P", "M")]
            rng.shuffle(subsets)
            for right in subsets[: (2 if tier == "quick" else 4)]:
                branches = [pool[n] for n in order] + [T("N")]
                toks = ["N"]
                for b in branches:
                    for l in G.leaves_of(b):
                        if l[0] == "tok" and l[1] not in toks:
                            toks.append(l[1])
                g = G.mk("pr_%s_r%s" % ("_".join(order), "".join(right)), toks,
                         [("s", E), ("e", ("alt", branches))], right=list(right))
                out.append((g["name"], G.render(g)))
                if len(out) >= limit:
                    return out
    return out


def oc_triples_pairwise(nf, nl, nc):
    triples = [(i, j, c) for i in range(nf) for j in range(nl) for c in range(nc)]
    need = {("fl", i, j) for i in range(nf) for j in range(nl)} | {("fc", i, c) for i in range(nf) for c in range(nc)} | \
           {("lc", j, c) for j in range(nl) for c in range(nc)}
    chosen = []
    while need:
        best = max(triples, key=lambda t: (("fl", t[0], t[1]) in need) + (("fc", t[0], t[2]) in need) + (("lc", t[1], t[2]) in need))
        chosen.append(best)
        need -= {("fl", best[0], best[1]), ("fc", best[0], best[2]), ("lc", best[1], best[2])}
    return chosen


def oc_family(tier):
    """Ordered-choice micro-grammars enumerated by shape: first alternative (consumes, may fail late) x
    last alternative (incl. nullable ones) x context (sibling rule after, tokens around, tokens before
    the choice inside the rule, loop, start rule, elided rule, creation around), all with a skipped
    token.  lelwel itself filters the accepted ones.  quick: every (first, last) pair once with the
    contexts rotating (pairwise coverage); thorough: the full product.
    Context `condel`: the rule also has a conditional elision (rule-local `elide` and `node_kind` are
    both saved and restored around an attempt)."""
    firsts = ["A B", "A B C", "t B", "A u", "A (B | C) D", "A [B] C", "A B* C", "<1 A B 1>x C", "A @n B",
              "A ^ B", "A ~ B C", "A B ~ C", "A !1 B", "(A | C) B* D", "A B+ C", "e B"]
    lasts = ["A C", "[C]", "A*", "A", "t C", "C", "A [C]", "()", "C D", "e C"]
    ctxs = [("sib", "s: r t2;\nr: %s;\nt2: A D;\n"), ("mid", "s: P r Q;\nr: %s;\n"),
            ("pre", "s: r Q;\nr: P (%s);\n"), ("loop", "s: (r)* D;\nr: %s;\n"), ("start", "s: %s;\n"),
            ("elided", "s: r+ D;\nr^: %s;\n"), ("create", "s: P <1 r 1>y Q;\nr: %s;\n"),
            ("prepost", "s: r Q;\nr: P (%s) Q;\n"), ("presib", "s: r t2;\nr: P (%s);\nt2: A D;\n"),
            ("condel", "s: P r D;\nr: (%s) [Q ^];\n")]
    triples = [(i, j, c) for i in range(len(firsts)) for j in range(len(lasts)) for c in range(len(ctxs))]
    if tier != "quick":
        # thorough: every third triple of the full product (405 grammars) on top of the pairwise cover
        cover = oc_triples_pairwise(len(firsts), len(lasts), len(ctxs))
        triples = sorted(set(cover) | set(triples[(seed() % 3)::3]))
    if tier == "quick":
        # greedy pairwise covering array over the three factors
        need = {("fl", i, j) for i in range(len(firsts)) for j in range(len(lasts))} | \
               {("fc", i, c) for i in range(len(firsts)) for c in range(len(ctxs))} | \
               {("lc", j, c) for j in range(len(lasts)) for c in range(len(ctxs))}
        chosen = []
        while need:
            best = max(triples, key=lambda t: (("fl", t[0], t[1]) in need) + (("fc", t[0], t[2]) in need) + (("lc", t[1], t[2]) in need))
            chosen.append(best)
            need -= {("fl", best[0], best[1]), ("fc", best[0], best[2]), ("lc", best[1], best[2])}
        triples = chosen
    out = []
    for (i, j, c) in triples:
        f, l, (cn, ct) = firsts[i], lasts[j], ctxs[c]
        if True:
            if True:
                body = "%s / %s" % (f, l)
                text = "token A B C D P Q N M W;\nskip W;\nstart s;\n" + (ct % body)
                if " e " in " " + body + " ":
                    text += "e: e M e | N;\n"
                if " t " in " " + body + " ":
                    text += "t: A;\n"
                if " u " in " " + body + " ":
                    text += "u: B C;\n"
                out.append(("oc_%d_%d_%s" % (i, j, cn), text))
    # constructs NESTED inside an option / loop / group / alternation of a non-last alternative: a
    # mismatch two levels down must still abandon the alternative
    wrappers = ["[%s]", "(%s)*", "(%s)+", "(%s | D)", "(%s)"]
    inners = ["B C", "B C* D", "B t", "B (C | D) A"]
    nested = [(w, x) for w in wrappers for x in inners]
    for k, (w, x) in enumerate(nested):
        combos = [(j, c) for j in (0, 1) for c in (0, 3)]
        if tier == "quick":
            combos = [combos[k % 4]]
        for (j, c) in combos:
            l, (cn, ct) = ["A C", "A B C* Q"][j], ctxs[c]
            body = "A %s C / %s" % (w % x, l)
            text = "token A B C D P Q N M W;\nskip W;\nstart s;\n" + (ct % body)
            if " t " in " " + body.replace("(", " ").replace(")", " ") + " ":
                text += "t: A;\n"
            out.append(("ocn_%d_%d_%s" % (k, j, cn), text))
    return out


def nodeop_family(tier):
    """Node operators (rename, elision, markers/creations, whole-rule creation) inside every kind of
    EBNF construct, in ordinary and elided rules, used once and inside a loop."""
    cons = []
    for op in ("^", "@n"):
        cons += ["(B %s)*" % op, "[B %s]" % op, "(B %s)+" % op, "(B %s | C)" % op, "(B | C %s)" % op,
                 "(B %s C)*" % op, "[B %s] [C]" % op, "(B [C %s])*" % op, "B %s" % op, "(%s B)*" % op]
    cons += ["<1 B 1>x", "<1 B [C 1>x]", "<1 B (C 1>x)*", "(<1 B 1>x)*", "<1 B 1>x C 1>y", "<1 <2 B 2>x C 1>y",
             "[<1 B 1>x]", "<1 (B | C 1>x)", "B >w", "[B >w]", "(B >w)*", "B >w C >v", "<1 B >w C 1>x"]
    out = []
    k = 0
    for c in cons:
        for elided in (False, True):
            for ctx in ("s: r D;", "s: r* D;"):
                if tier == "quick" and (k % 2 == 1):
                    k += 1
                    continue
                k += 1
                text = "token A B C D W;\nskip W;\nstart s;\n%s\nr%s: A %s;\n" % (ctx, "^" if elided else "", c)
                out.append(("no_%d" % k, text))
    return out


KEEP_EV = {
    "C01": (), "C03": (), "C04": (), "C06": (),
    "C02": ("create", "delete"), "C05": ("act",), "C16": ("pred",), "C08": ("create", "delete", "act"),
}


def lean_outcome(o, prop):
    keep = KEEP_EV.get(prop, ())
    ev = []
    for x in o.get("events", []):
        if x["e"] in keep:
            if x["e"] == "create":
                ev.append({"e": "create", "kind": x["kind"], "kindok": x["kindok"], "sig": x["sig"]})
            elif x["e"] == "delete":
                ev.append({"e": "delete", "kind": x["kind"]})
            elif x["e"] == "pred":
                ev.append({"e": "pred", "pos": x["pos"], "peek": x["peek"], "left": x["left"]})
            elif x["e"] == "act":
                ev.append({"e": "act", "ioc": x["ioc"]})
    return {
        "en": o["en"], "w": o["w"], "s": o["s"], "panic": o["panic"], "walkpanic": o["walkpanic"],
        "flat": o["flat"] if prop == "C02" else [["r", "x", 0]],
        "tree": o["tree"] if prop in ("C01", "C02", "C05", "C07", "C16") else {"r": "x", "lo": 0, "hi": 0, "c": []},
        "diags": o["diags"], "ev": ev,
        "acts": [x["id"] for x in o.get("events", []) if x["e"] == "act"],
        "sigs": sigs_of_flat(o["flat"]) if prop in ("C02", "C08") else [],
    }


DEV_CAUSE = [("CreateBelowSnapshot", "creation_below_snapshot"), ("StaleInnerMark", "stale_inner_mark"),
             ("RestoreKeepsErrorState", "restore_unmutes")]
_cause_cache = {}


def grammar_causes(b):
    """Grammar-level causes of known findings (structural; independent of any run)."""
    e = b.export
    out = []
    # F17: an empty-word operator before the left operand of a left-recursive branch
    for r in e["rules"]:
        for br in r["recursive"]:
            if br["kind"] in ("left", "leftright") and br["left"] > 0:
                node = e["nodes"][br["node"] - 1]
                if any(e["nodes"][c - 1]["k"] in ("rename", "elide", "act") for c in node["c"][: br["left"]]):
                    out.append("epsop_before_left")
    # F09: a conflict lelwel does not report because the follow position is a self reference inside the rule
    if any(r["recursive"] for r in e["rules"]):
        import p1
        wd = cache_dir("p2", b.name)
        gp = os.path.join(wd, "P1rec.ndjson")
        write_ndjson(gp, [p1.tlc_record(e)])
        res = run_tlc("MC_P1", "MC_P1_C10.cfg", env={"GFILE": gp}, workers=1, timeout=300, job="p2-c10-" + b.name)
        if any(m and m.get("cause") == "inrule_selfref" for m in res.payload("MM")):
            out.append("unreported_inrule_conflict")
    return out


def causes_for(b, mouts):
    """Per-record cause of a contract violation, derived from the as-built machine: the record
    must conform to the machine (no drift) and a named deviation must have fired in that run."""
    if b.name in _cause_cache:
        return _cause_cache[b.name]
    res = machine_conformance(b, mouts, tag="cause")
    n = len(mouts)
    drift = {d["i"] for d in res.payload("DRIFT") if d and d["i"] <= n}
    devs = {}
    for d in res.payload("DEV"):
        if d and d["i"] <= n and d["i"] not in drift:
            devs[d["i"]] = set(d["dev"])
    try:
        gc = grammar_causes(b)
    except Exception:
        gc = []
    _cause_cache[b.name] = (devs, drift, gc, bool(res.ok or res.violated))
    return _cause_cache[b.name]


def cause_of(b, mouts, idx):
    devs, drift, gc, ok = causes_for(b, mouts)
    for dev, name in DEV_CAUSE:
        if dev in devs.get(idx, ()):
            return name
    return gc[0] if gc else ""


class Built:
    def __init__(self, name, text, res):
        self.name, self.text, self.res = name, text, res
        self.export = res.get("export")
        self.ok = res["ok"]
        self.feat = features(self.export) if self.export and "nodes" in self.export else None


def build_all(files):
    ensure_harness()

    def one(f):
        if isinstance(f, tuple):
            name, text = f
        else:
            name = os.path.basename(f)[:-4]
            with open(f) as fh:
                text = fh.read()
        wd = cache_dir("p2", name)
        stamp = os.path.join(wd, "built.json")
        if os.path.exists(stamp):
            with open(stamp) as fh:
                res = json.load(fh)
            if not res["ok"] or os.path.exists(res.get("bin", "")):
                return Built(name, text, res)
        res = p2gen.build_runner(name, text, wd)
        with open(stamp, "w") as fh:
            json.dump(res, fh)
        return Built(name, text, res)
    return parallel(one, files)


def outcomes_for(b, cap, pairs, with_skips=True):
    """Recorded runs of the real parser for grammar b (cached per tree hash)."""
    wd = cache_dir("p2", b.name)
    alpha, skips = alphabet_for(b.export, with_skips)
    full = alpha + skips
    n = bound_for(len(full), cap)
    entries = ["start"] + list(b.export.get("semaparts", []))
    tag = "out-%d-%d-%s.ndjson" % (n, len(full), "p" if pairs else "s")
    path = os.path.join(wd, tag)
    meta = os.path.join(wd, tag + ".meta")
    if os.path.exists(path) and os.path.exists(meta):
        with open(meta) as fh:
            return read_ndjson(path), json.load(fh)
    outs, abnormal = p2gen.run_runner(b.res["bin"], wd, full, n, entries=entries, skips=skips,
                                      pairs=pairs, timeout=40)
    write_ndjson(path, outs)
    m = {"n": n, "alphabet": full, "skips": skips, "entries": entries, "abnormal": abnormal}
    with open(meta, "w") as fh:
        json.dump(m, fh)
    return outs, m


def judge(prop, tier):
    rep = Report(prop, tier, "model_checking")
    files = corpus_files()
    if prop == "C07":
        files = files + pratt_corpus(tier)
    if prop in ("C01", "C02", "C03", "C04", "C08", "C16"):
        files = files + oc_family(tier)
    if prop in ("C01", "C02", "C03", "C05", "C16"):
        files = files + nodeop_family(tier)
    if prop in ("C01", "C03", "C04", "C06", "C16"):
        import p1
        files = files + [(g["name"], G.render(dict(g, tokens=g["tokens"] + [{"name": "W", "sym": ""}], skip=["W"])))
                         for g in p1.parts_family()]
    only = os.environ.get("VERIF_ONLY")     # debugging aid: judge the grammars whose name contains this
    if only:
        files = [f for f in files if only in (os.path.basename(f) if isinstance(f, str) else f[0])]
    built = build_all(files)
    cap = 1600 if tier == "quick" else 4000
    if prop == "C07":
        cap = 4000 if tier == "quick" else 9000
    with_skips = prop != "C07"
    pairs = prop == "C16"
    sel = [b for b in built if b.ok and SELECT[prop](b.feat)]
    notbuilt = [b for b in built if not b.ok]
    stats = {"grammars": 0, "runs": 0, "states": 0, "generated": 0, "nontrivial": 0, "abnormal": 0}
    samples = []
    selftest = {"corrupted": 0, "rejected": 0}

    def prepare(b):
        outs, meta = outcomes_for(b, cap, pairs, with_skips)
        if prop in ("C05", "C07"):
            # these two judge sentences only (a run with a diagnostic is C04's business)
            outs = [o for o in outs if not o["diags"] and not o["panic"]]
        if pairs:
            recs = [{"o": lean_outcome(r["o"], prop), "so": lean_outcome(r["so"], prop)} for r in outs]
        else:
            recs = [{"o": lean_outcome(o, prop)} for o in outs]
        # binding self-test: a corrupted copy of a recorded outcome must be rejected by TLC
        st = None if (prop == "C04" and b.feat["oc"]) else corrupt_record(recs, prop)
        nreal = len(recs)
        if st is not None:
            recs = recs + [st]
        return b, outs, meta, recs, nreal, st is not None
    t_j = time.time()
    prepared = parallel(prepare, sel, jobs=8)
    # shards: a few JVMs, each judging several grammars (records carry the grammar index)
    nshard = max(1, min(6, len(prepared)))
    order = sorted(range(len(prepared)), key=lambda k: -len(prepared[k][3]))
    shards = [[] for _ in range(nshard)]
    for j, k in enumerate(order):
        shards[j % nshard].append(k)
    d = cache_dir("p2")

    def run_shard(si):
        ks = shards[si]
        gfile = os.path.join(d, "JG-%s-%d.ndjson" % (prop, si))
        rfile = os.path.join(d, "JR-%s-%d.ndjson" % (prop, si))
        write_ndjson(gfile, [G.export_to_tlc(prepared[k][0].export) for k in ks])
        allrecs, owner = [], []
        for gi, k in enumerate(ks, 1):
            for li, r in enumerate(prepared[k][3], 1):
                allrecs.append(dict(r, g=gi))
                owner.append((k, li))
        write_ndjson(rfile, allrecs)
        res = run_tlc("MC_P2J", "MC_P2J_%s.cfg" % prop, env={"GFILE": gfile, "RFILE": rfile},
                      workers=2, timeout=3000, xmx="4g", job="p2j-%s-%d" % (prop, si), slow_start=len(allrecs) > 20000)
        return si, res, owner
    shard_results = parallel(run_shard, range(nshard))
    vs_by_k = {k: [] for k in range(len(prepared))}
    states_by_k = {k: 0 for k in range(len(prepared))}
    tot_states = tot_gen = 0
    for si, res, owner in shard_results:
        if not res.ok:
            log(res.raw[-2500:])
            raise ToolError("TLC judge failed for %s shard %d: %s" % (prop, si, res.error))
        tot_states += res.distinct
        tot_gen += res.generated
        for v in res.payload("V"):
            if v:
                k, li = owner[v["i"] - 1]
                vs_by_k[k].append(dict(v, i=li))
    log("%s: judge stage over %d grammars in %.0fs" % (prop, len(sel), time.time() - t_j))

    class R:
        pass
    results = []
    for k, (b, outs, meta, recs, nreal, has_st) in enumerate(prepared):
        r = R()
        r.ok, r.distinct, r.generated, r._vs = True, 0, 0, vs_by_k[k]
        r.payload = (lambda vs: (lambda tag: vs))(vs_by_k[k])
        results.append((b, outs, meta, recs, nreal, has_st, r))
    stats["states"] += tot_states
    stats["generated"] += tot_gen
    for b, outs, meta, recs, nreal, has_st, res in results:
        if not res.ok:
            log(res.raw[-2500:])
            raise ToolError("TLC judge failed for %s/%s: %s" % (prop, b.name, res.error))
        stats["grammars"] += 1
        stats["runs"] += nreal
        stats["states"] += res.distinct
        stats["generated"] += res.generated
        vs = [v for v in res.payload("V") if v]
        st_hit = [v for v in vs if v["i"] == nreal + 1]
        if has_st:
            selftest["corrupted"] += 1
            selftest["rejected"] += 1 if st_hit else 0
        for a in meta["abnormal"]:
            stats["abnormal"] += 1
            if prop == "C03":
                key = "C03:abnormal:%s:%s" % (b.name, a["at"])
                rep.violation(key, "generated parser for %s terminated abnormally (rc=%s) at input [%s]" %
                              (b.name, a["rc"], a["at"]),
                              {"property": prop, "grammar": b.name, "grammar_text": b.text, "input": a["at"], "rc": a["rc"]})
        for v in vs:
            if v["i"] > nreal:
                continue
            r = outs[v["i"] - 1]
            o = r["o"] if pairs else r
            mouts = [x["o"] for x in outs] if pairs else outs
            cause = cause_of(b, mouts, v["i"])
            key = "%s:%s:%s:%s:%d:%s:%s" % (prop, v["why"], cause, b.name, o["en"], " ".join(o["w"]),
                                            "".join("1" if x else "0" for x in o["s"]))
            desc = "%s/%s on grammar %s entry %d input [%s] script %s: diags=%s" % (
                prop, v["why"], b.name, o["en"], " ".join(o["w"]), o["s"], [d[:2] for d in o["diags"]])
            rep.violation(key, desc, {"property": prop, "why": v["why"], "grammar": b.name,
                                      "grammar_text": b.text, "entry": o["en"], "input": o["w"],
                                      "script": o["s"], "outcome": r})
        stats["nontrivial"] += nontrivial_count(prop, outs, pairs, b)
        if len(samples) < 5 and outs:
            o = outs[len(outs) // 2]
            o = o["o"] if pairs else o
            samples.append({"grammar": b.text, "input": o["w"], "script": o["s"],
                            "diags": [d[:2] for d in o["diags"]], "flat": o["flat"]})
    if selftest["corrupted"] and selftest["rejected"] < selftest["corrupted"]:
        raise ToolError("binding self-test failed: TLC accepted a corrupted outcome (%s)" % selftest)
    rep.coverage = {
        "states": max(1, stats["states"]), "transitions": max(1, stats["generated"]),
        "traces_validated_against_impl": stats["runs"],
        "samples": samples or [{"note": "no grammar selected"}],
        "evaluations": stats["runs"], "distinct_nontrivial": stats["nontrivial"],
        "rule": "every (grammar, entry point, input up to the bound over used tokens + one skipped token + Error, "
                "predicate/assertion outcome script) is one recorded run of the real parser = one TLC state; "
                "non-trivial: " + NONTRIVIAL_RULE[prop],
        "grammars": stats["grammars"],
        "grammars_not_compiled": [{"name": b.name, "stage": b.res["stage"]} for b in notbuilt],
        "bounds": {"max_runs_per_grammar_entry": cap},
        "abnormal_terminations": stats["abnormal"],
        "binding_selftest": selftest,
        "exhaustive": True,
    }
    if prop in ("C05", "C07"):
        import p1
        extra = nodeop_family(tier) if prop == "C05" else pratt_corpus(tier)
        at = p1.attrs_stage(prop, tier, rep, extra)
        rep.coverage["analysis_attribute_stage"] = at
        rep.coverage["states"] += at["states"]
        rep.coverage["transitions"] += at["transitions"]
    if prop == "C02":
        bs = builder_stage(tier)
        rep.coverage["builder_histories"] = {k: v for k, v in bs.items() if k != "failures"}
        rep.coverage["states"] += bs["model_states"] + bs["judge_states"]
        rep.coverage["transitions"] += bs["model_transitions"]
        rep.coverage["traces_validated_against_impl"] += bs["histories"]
        for f in bs["failures"]:
            rep.violation("C02:builder:%s:%s" % (f["why"], f["ops"]),
                          "C02/builder history [%s]: %s; reference %s, real %s" % (f["ops"], f["why"], f["spec"], f["real"]),
                          {"property": "C02", "why": "builder:" + f["why"], "history": f["ops"], "reference": f["spec"], "real": f["real"],
                           "grammar_text": BUILDER_GRAMMAR, "input": [], "entry": 0})
    if prop == "C08":
        ref = reference_stage(rep, [b for b in sel if not (b.feat["pred"] or b.feat["assert"])], cap)
        rep.coverage["reference_runs"] = ref
        rep.coverage["states"] += ref["states"]
        rep.coverage["transitions"] += ref["transitions"]
    if prop == "C03":
        names = ("a06", "c04", "d01", "d06")
        fsel = [b for b in sel if tier == "thorough" or b.name[:3] in names]
        t_f = time.time()
        rep.coverage["free_exploration"] = free_stage(fsel, cap)
        log("free exploration over %d grammars in %.0fs" % (len(fsel), time.time() - t_f))
        rep.coverage["states"] += rep.coverage["free_exploration"]["states"]
        rep.coverage["transitions"] += rep.coverage["free_exploration"]["transitions"]
    if prop in ("C01", "C03", "C08"):
        # machine specification run on the same points: drift report + model-level invariants
        # quick: the corpus and a third of the enumerated families; thorough: everything
        msel = sel if tier == "thorough" else [b for k, b in enumerate(sel) if not b.name.startswith(("oc_", "no_")) or k % 4 == 0]
        t_m = time.time()
        mach, _ = machine_stage(msel, cap)
        log("machine conformance over %d grammars in %.0fs" % (len(msel), time.time() - t_m))
        rep.coverage["machine_conformance"] = mach
        rep.coverage["states"] += mach["states"]
        rep.coverage["transitions"] += mach["transitions"]
        if mach["selftest_rejected"] < mach["selftest_expected"]:
            raise ToolError("machine binding self-test failed: a corrupted record was not reported as drift")
    rep.assumptions = [
        "token vectors are injected through ParserCallbacks::Context; the lexer is not part of these properties",
        "predicate/assertion outcomes are scripted by call order",
        "grammar structure is exported by lelwel's own front end (C13)",
    ]
    return rep


NONTRIVIAL_RULE = {
    "C01": "the input is not a sentence (recovery paths) or contains a skipped/Error token",
    "C02": "the run produced at least two rule nodes or an error node",
    "C03": "the input is not a sentence (at least one diagnostic)",
    "C04": "all runs count; sentences and non-sentences are reported separately",
    "C05": "the input is a sentence (no diagnostic) with at least one token",
    "C06": "the run produced at least one diagnostic",
    "C16": "the input contains at least one skipped or Error token",
    "C07": "the input is a sentence with at least two operators (precedence or associativity decides its tree)",
    "C08": "at least one node was discarded by backtracking (a deleted-callback fired) or the run has a diagnostic",
}


def nontrivial_count(prop, outs, pairs, b):
    n = 0
    skips = set(b.export.get("semaskip", [])) | {"Error"}
    for r in outs:
        o = r["o"] if pairs else r
        if prop in ("C01",):
            n += bool(o["diags"]) or any(t in skips for t in o["w"])
        elif prop == "C02":
            n += sum(1 for x in o["flat"] if x[0] == "r") >= 2
        elif prop in ("C03", "C06"):
            n += bool(o["diags"])
        elif prop == "C04":
            n += 1
        elif prop == "C05":
            n += (not o["diags"]) and len(o["w"]) > 0
        elif prop == "C16":
            n += any(t in skips for t in o["w"])
        elif prop == "C08":
            n += bool(o["diags"]) or any(x["e"] == "delete" for x in o["events"])
        elif prop == "C07":
            n += (not o["diags"]) and sum(1 for x in o["flat"] if x[0] == "r") >= 4
    return n


def corrupt_record(recs, prop):
    import copy
    for r in recs:
        o = r["o"]
        if o["panic"] or len(o["w"]) < 2:
            continue
        c = copy.deepcopy(r)
        co = c["o"]
        if prop in ("C01", "C03"):
            if prop == "C03":
                co["panic"] = "selftest"
                return c
            # swap two leaves' indices
            def leaves(t, acc):
                if "t" in t:
                    acc.append(t)
                else:
                    for x in t["c"]:
                        leaves(x, acc)
                return acc
            ls = leaves(co["tree"], [])
            if len(ls) >= 2:
                ls[0]["i"], ls[1]["i"] = ls[1]["i"], ls[0]["i"]
                return c
        elif prop == "C02":
            if len(co["flat"]) >= 2:
                co["flat"][0][2] += 1
                return c
        elif prop == "C04":
            co["diags"] = [] if co["diags"] else [[0, 1, "selftest"]]
            return c
        elif prop == "C06":
            if co["diags"]:
                co["diags"] = [[co["diags"][0][0] + 1, co["diags"][0][1] + 1, "x"]] + co["diags"][1:] \
                    if co["diags"][0][0] + 1 < len(co["w"]) else [[0, 1, "x"]] + co["diags"][1:]
                if co["diags"] != o["diags"]:
                    return c
        elif prop in ("C05", "C07"):
            if not co["diags"] and "c" in co["tree"] and co["tree"]["c"]:
                co["tree"]["c"] = co["tree"]["c"][1:]
                return c
        elif prop == "C08":
            co["ev"] = co["ev"] + [{"e": "act", "ioc": True}]
            return c
        elif prop == "C16":
            if c["so"]["diags"] != [] or True:
                c["so"]["diags"] = c["so"]["diags"] + [[0, 1, "selftest"]]
                return c
    return None


def replay(prop, path):
    with open(path) as fh:
        r = json.load(fh)
    print(json.dumps({k: r[k] for k in r if k != "outcome"}, indent=1))
    ensure_harness()
    wd = cache_dir("p2", "replay")
    res = p2gen.build_runner("replay", r["grammar_text"], wd)
    if not res["ok"]:
        print("runner not built:", res["stage"], res["error"])
        return 1
    e = res["export"]
    entries = ["start"] + list(e.get("semaparts", []))
    inp = os.path.join(wd, "inputs.txt")
    with open(inp, "w") as fh:
        fh.write(entries[r.get("entry", 0)] + " " + " ".join(r["input"]) + "\n")
    alpha, skips = alphabet_for(e)
    outs, ab = p2gen.run_runner(res["bin"], wd, alpha + skips, 0, entries=entries, skips=skips,
                                pairs=(prop == "C16"), inputs_file=inp)
    for o in outs:
        print(json.dumps(o)[:4000])
    print("abnormal:", ab)
    if ab:
        return 1
    if prop in SELECT and outs and not r.get("why", "").startswith(("no_reference_run", "builder")):
        # re-judge the recorded point on the current tree
        gfile = os.path.join(wd, "JG-replay.ndjson")
        rfile = os.path.join(wd, "JR-replay.ndjson")
        write_ndjson(gfile, [G.export_to_tlc(e)])
        pairs = prop == "C16"
        recs = [dict({"o": lean_outcome(x["o"], prop), "so": lean_outcome(x["so"], prop)} if pairs else {"o": lean_outcome(x, prop)}, g=1)
                for x in outs]
        res = run_tlc("MC_P2J", "MC_P2J_%s.cfg" % prop, env={"GFILE": gfile, "RFILE": rfile} if write_ndjson(rfile, recs) is None else {},
                      workers=1, timeout=600, job="p2j-replay")
        vs = [v for v in res.payload("V") if v]
        print("judge:", vs if vs else "contract holds on this point now")
        return 1 if vs else 0
    return 0


# ----------------------------------------------------------------------------------------------
# machine conformance (MC_P2M): the machine spec is run on the recorded points
# ----------------------------------------------------------------------------------------------

def machine_grammar(b):
    """G for ParserMachine.tla: structure + the analysis results the emitted code is built from."""
    e = b.export
    g = G.export_to_tlc(e)
    nodes = []
    for n in e["nodes"]:
        nodes.append({
            "k": n["k"], "c": n["c"], "t": n["t"], "r": n["r"], "num": n["num"], "name": n["name"],
            "first": n["first"] or [], "follow": n["follow"] or [], "predict": n["predict"] or [],
            "recovery": n["recovery"] or [], "el": n["elision"] or "none", "inchoice": n["inchoice"],
        })
    rules = []
    for r in e["rules"]:
        if r["elided"]:
            el = "uncond"
        elif r["body"]:
            el = e["nodes"][r["body"] - 1]["elision"] or "none"
        else:
            el = "none"
        rules.append({
            "name": r["name"], "elided": r["elided"], "body": r["body"], "used": r["used"],
            "inchoice": r["inchoice"], "hasrename": r["has_rename"], "hascreation": r["has_creation"],
            "el": el,
            "rec": [{"kind": x["kind"], "node": x["node"], "left": x["left"], "right": x["right"], "bp": x["bp"]}
                    for x in r["recursive"]],
        })
    g["nodes"] = nodes
    g["rules"] = rules
    with open(os.path.join(os.path.dirname(b.res["bin"]), "out", "generated.rs")) as fh:
        src = fh.read()
    g["delkinds"] = [m[0][len("delete_node_"):] for m in p2gen.trait_methods(src) if m[0].startswith("delete_node_")]
    return g


def machine_record(o):
    evs = []
    for x in o.get("events", []):
        k = x["e"]
        if k == "diag":
            evs.append({"e": "diag", "s": "", "n": x["lo"], "b": x["muted"]})
        elif k == "create":
            evs.append({"e": "create", "s": x["kind"], "n": x["ref"], "b": False})
        elif k == "delete":
            evs.append({"e": "delete", "s": x["kind"], "n": x["ref"], "b": False})
        elif k == "pred":
            evs.append({"e": "pred", "s": x["id"], "n": x["pos"], "b": x["ret"]})
        elif k == "act":
            evs.append({"e": "act", "s": x["id"], "n": x["pos"], "b": False})
        elif k == "assert":
            evs.append({"e": "assert", "s": x["id"], "n": x["pos"], "b": x["ret"]})
    return {"en": o["en"], "w": o["w"], "s": o["s"], "panic": bool(o["panic"]),
            "flat": o["flat"], "dl": [d[0] for d in o["diags"]], "evs": evs}


def machine_conformance(b, outs, tag="m"):
    wd = cache_dir("p2", b.name)
    gfile = os.path.join(wd, "GM.ndjson")
    write_ndjson(gfile, [machine_grammar(b)])
    rfile = os.path.join(wd, "RM-%s.ndjson" % tag)
    recs = [machine_record(o) for o in outs]
    # binding self-test: one corrupted copy (last record) must be reported as drift
    import copy
    has_st = False
    for r in recs:
        if not r["panic"] and r["flat"]:
            c = copy.deepcopy(r)
            c["dl"] = c["dl"] + [len(c["w"])]
            recs.append(c)
            has_st = True
            break
    write_ndjson(rfile, recs)
    res = run_tlc("MC_P2M", "MC_P2M.cfg", env={"GFILE": gfile, "RFILE": rfile}, workers=2,
                  timeout=1500, xmx="3g", job="p2m-%s-%s" % (tag, b.name))
    res.has_selftest = has_st
    return res


def machine_stage(sel, cap):
    """MC_P2M on every selected grammar; returns evidence dict (drift is never an alarm)."""
    def one(b):
        outs, meta = outcomes_for(b, cap, False)
        return b, outs, machine_conformance(b, outs)
    out = {"grammars": 0, "behaviours": 0, "states": 0, "transitions": 0, "drift": {}, "inv": {},
           "hard_invariant": {}, "selftest_rejected": 0, "selftest_expected": 0, "errors": {}}
    per = {}
    for b, outs, res in parallel(one, sel):
        n = len(outs)
        out["grammars"] += 1
        out["behaviours"] += n
        out["states"] += res.distinct
        out["transitions"] += res.generated
        if res.error:
            out["errors"][b.name] = res.error[:200]
        if res.violated:
            out["hard_invariant"][b.name] = res.violated
        dr = [d for d in res.payload("DRIFT") if d]
        if getattr(res, "has_selftest", False):
            out["selftest_expected"] += 1
        if any(d["i"] == n + 1 for d in dr):
            out["selftest_rejected"] += 1
        dr = [d for d in dr if d["i"] <= n]
        if dr:
            out["drift"][b.name] = {"count": len(dr), "first": {"what": dr[0]["what"], "input": outs[dr[0]["i"] - 1]["w"]}}
        iv = [d for d in res.payload("INV") if d and d["i"] <= n]
        if iv:
            out["inv"][b.name] = {"count": len(iv), "what": iv[0]["what"], "input": outs[iv[0]["i"] - 1]["w"]}
        per[b.name] = (outs, res, dr, iv)
    return out, per


def reference_stage(rep, sel, cap):
    """C08 two-run theorem: every recorded run must be matched by a reference run (MC_P2R)."""
    def one(b):
        outs, meta = outcomes_for(b, cap, False)
        wd = cache_dir("p2", b.name)
        gfile = os.path.join(wd, "GM.ndjson")
        write_ndjson(gfile, [machine_grammar(b)])
        rfile = os.path.join(wd, "RR.ndjson")
        recs = [machine_record(o) for o in outs]
        # binding self-test: a record with an impossible diagnostic must stay unmatched
        import copy
        st = None
        for r in recs:
            if not r["panic"]:
                st = copy.deepcopy(r)
                st["dl"] = st["dl"] + [len(st["w"])] * 2
                break
        if st:
            recs.append(st)
        write_ndjson(rfile, recs)
        res = run_tlc("MC_P2R", "MC_P2R.cfg", env={"GFILE": gfile, "RFILE": rfile}, workers=2,
                      timeout=1500, xmx="3g", job="p2r-%s" % b.name)
        return b, outs, res, st is not None
    out = {"grammars": 0, "records": 0, "matched": 0, "states": 0, "transitions": 0, "selftest_unmatched": 0}
    for b, outs, res, has_st in parallel(one, sel):
        if not res.ok:
            log(res.raw[-2000:])
            raise ToolError("TLC reference run failed for %s: %s %s" % (b.name, res.error, res.violated))
        n = len(outs)
        matched = {m["i"] for m in res.payload("MATCH") if m}
        out["grammars"] += 1
        out["records"] += n
        out["states"] += res.distinct
        out["transitions"] += res.generated
        if has_st and (n + 1) not in matched:
            out["selftest_unmatched"] += 1
        for i, o in enumerate(outs, 1):
            if o["panic"]:
                continue
            if i in matched:
                out["matched"] += 1
                continue
            key = "C08:no_reference_run:%s:%s:%d:%s:" % (cause_of(b, outs, i), b.name, o["en"], " ".join(o["w"]))
            desc = ("C08: no choice of alternatives makes the reference run (chosen alternative executed directly) end "
                    "with the tree and diagnostics the real parser returned; grammar %s input [%s] diags=%s" %
                    (b.name, " ".join(o["w"]), [d[:2] for d in o["diags"]]))
            rep.violation(key, desc, {"property": "C08", "why": "no_reference_run", "grammar": b.name,
                                      "grammar_text": b.text, "entry": o["en"], "input": o["w"], "script": o["s"],
                                      "outcome": o})
    if out["selftest_unmatched"] < out["grammars"]:
        raise ToolError("reference binding self-test failed: an impossible record was matched")
    return out


def free_stage(sel, cap):
    """MC_P2F: TLC explores the machine spec over all inputs x all predicate/assertion outcomes
    with the model-level invariants, and the set of completed behaviours is compared with the
    set of points the runner recorded from the real parser (enumeration cross-check)."""
    def one(b):
        outs, meta = outcomes_for(b, cap, False)
        wd = cache_dir("p2", b.name)
        gfile = os.path.join(wd, "GM.ndjson")
        write_ndjson(gfile, [machine_grammar(b)])
        pfile = os.path.join(wd, "PF.ndjson")
        write_ndjson(pfile, [{"alpha": meta["alphabet"], "n": meta["n"], "asbuilt": ["RestoreKeepsErrorState"]}])
        res = run_tlc("MC_P2F", "MC_P2F.cfg", env={"GFILE": gfile, "PFILE": pfile}, workers=3, timeout=2400,
                      xmx="4g", job="p2f-%s" % b.name)
        # liveness on a smaller instance: every behaviour terminates under weak fairness
        write_ndjson(pfile + ".live", [{"alpha": meta["alphabet"], "n": min(meta["n"], 3), "asbuilt": ["RestoreKeepsErrorState"]}])
        live = run_tlc("MC_P2F", "MC_P2F_Live.cfg", env={"GFILE": gfile, "PFILE": pfile + ".live"}, workers=2, timeout=900,
                       xmx="3g", job="p2fl-%s" % b.name)
        return b, outs, res, live
    out = {"grammars": 0, "states": 0, "transitions": 0, "behaviours": 0, "invariant_violations": {},
           "enumeration_mismatch": {}, "errors": {}}
    for b, outs, res, live in parallel(one, sel, jobs=4):
        out["grammars"] += 1
        out["states"] += res.distinct + live.distinct
        out["transitions"] += res.generated
        if res.error:
            out["errors"][b.name] = res.error[:200]
            continue
        if res.violated:
            out["invariant_violations"][b.name] = res.violated
            continue
        out.setdefault("liveness", {})[b.name] = "holds" if live.ok else str(live.violated or live.error or "?")[:80]
        done = {(d["en"], tuple(d["w"]), tuple(d["u"])) for d in res.payload("DONE") if d}
        rec = {(o["en"], tuple(o["w"]), tuple(o["s"])) for o in outs}
        out["behaviours"] += len(done)
        if done != rec:
            out["enumeration_mismatch"][b.name] = {"only_model": len(done - rec), "only_real": len(rec - done)}
    return out


BUILDER_GRAMMAR = "token A W;\nskip W;\nstart s;\ns: x y;\nx: A;\ny: A;\n"


def builder_stage(tier):
    """Pipeline P3 (C02, histories): TLC explores every protocol-conforming history of tree-builder
    operations up to the bound against the ghost reference tree (spec/CstBuilder.tla), every
    history is replayed into the REAL CstData, and TLC judges the recorded vectors."""
    ensure_harness()
    wd = cache_dir("p3b")
    res = p2gen.build_runner("builder", BUILDER_GRAMMAR, wd)
    if not res["ok"]:
        raise ToolError("builder runner not built: %s" % res)
    cfg = "MC_CstBuilder.cfg" if tier == "quick" else "MC_CstBuilder_Thorough.cfg"
    mc = run_tlc("MC_CstBuilder", cfg, workers=6, timeout=3000, xmx="8g", job="p3-builder", slow_start=True)
    if not mc.ok:
        log(mc.raw[-2000:])
        raise ToolError("CstBuilder model check failed: %s %s" % (mc.violated, mc.error))
    f03 = run_tlc("MC_CstBuilder", "MC_CstBuilder_F03.cfg", workers=2, timeout=600, job="p3-builder-f03")
    hs = [h for h in mc.payload("H") if h]

    def opline(h):
        out = []
        for op in h["ops"]:
            if op[0] == "tok":
                out.append("tok:%s:%d" % (op[1], 1 if op[2] else 0))
            elif op[0] in ("close", "mark", "openbefore"):
                out.append("%s:%s" % (op[0], op[1]))
            else:
                out.append(op[0])
        return " ".join(out)
    hfile = os.path.join(wd, "histories.txt")
    with open(hfile, "w") as fh:
        for h in hs:
            fh.write(opline(h) + "\n")
    r = subprocess.run([res["bin"], "--builder", hfile], stdout=subprocess.PIPE, stderr=subprocess.PIPE, text=True, timeout=600)
    real = [json.loads(l) for l in r.stdout.splitlines() if l.startswith("{")]
    if len(real) != len(hs):
        raise ToolError("builder replay returned %d results for %d histories (rc=%s)" % (len(real), len(hs), r.returncode))
    recs = [{"spec": {"nodes": h["nodes"], "tc": h["tc"], "nsl": h["nsl"], "tree": h["tree"]},
             "real": {"nodes": x["nodes"], "tc": x["tc"], "nsl": x["nsl"], "panic": x["panic"], "tree": x["tree"]}}
            for h, x in zip(hs, real)]
    import copy
    st = None
    for r in recs[len(recs) // 2:]:
        if len(r["real"]["tree"]) == 3 and len(r["real"]["tree"][2]) >= 2:
            st = copy.deepcopy(r)
            st["real"]["tree"][2] = st["real"]["tree"][2][1:]
            break
    recs.append(st)
    nshard = 4
    out = {"histories": len(hs), "model_states": mc.distinct, "model_transitions": mc.generated,
           "f03_protocol_violation_found_by_tlc": f03.violated == "Refines", "judge_states": 0, "failures": [],
           "vector_drift": 0}

    def shard(k):
        part = recs[k::nshard]
        rf = os.path.join(wd, "BR-%d.ndjson" % k)
        write_ndjson(rf, part)
        return k, run_tlc("Trace_CstBuilder", "Trace_CstBuilder.cfg", env={"RFILE": rf}, workers=2, timeout=1800,
                          xmx="4g", job="p3-judge-%d" % k, slow_start=True)
    st_seen = False
    for k, jr in parallel(shard, range(nshard), jobs=4):
        if not jr.ok:
            log(jr.raw[-1500:])
            raise ToolError("builder judge failed: %s" % jr.error)
        out["judge_states"] += jr.distinct
        out["vector_drift"] += len([x for x in jr.payload("DRIFT") if x])
        for v in jr.payload("V"):
            if not v:
                continue
            gi = k + (v["i"] - 1) * nshard
            if gi == len(recs) - 1:
                st_seen = True
                continue
            out["failures"].append({"why": v["why"], "ops": opline(hs[gi]), "spec": recs[gi]["spec"], "real": recs[gi]["real"]})
    if not st_seen:
        raise ToolError("builder binding self-test failed")
    return out
