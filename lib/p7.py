"""Pipeline P7 — the language server (C20).

Model: spec/Lsp.tla (main loop + one analyzer thread per document, explicit interleaving), checked
by TLC through spec/MC_Lsp.tla.  Binding to the real code, both directions:

  spec -> impl  every history TLC explores (HIST lines) is instantiated with concrete texts and
                positions and replayed (a) in process through `lelwel::ide::Cache` exactly as
                bin/lelwel-ls.rs uses it, (b) for a sample, against the real `lelwel-ls` binary over
                stdio with three pacings;
  impl -> spec  recorded runs (the replayed histories, every-position sweeps and random long
                sessions) are validated by TLC against Lsp.tla through spec/Trace_Lsp.tla.

Alarm policy: a VIOLATION is a failure of the CONTRACT of C20 on the real code's behaviour (death,
hang, unanswered request, diagnostics != command-line check of the latest text, definition and
references inconsistent, hover without the analysis sets, a range outside the document, an answer
that is not the one a fresh server gives for the latest text).  A recorded run the model cannot
explain but whose contract holds is MODEL-DRIFT (counted in the evidence).
"""
import bisect
import copy
import hashlib
import os
import random
import re
import subprocess
import sys
import time

from common import *

# lelwel-ls is built from the tree under test (VERIF_REPO); a scratch tree gets its own target dir
LS_TARGET = os.path.join(BUILD, "ls-target" if REPO == "/repo" else
                         "ls-target-" + hashlib.sha1(REPO.encode()).hexdigest()[:8])
POSITIONAL = ("hover", "definition", "references", "completion")
OK_CLASSES = ("inname", "intrivia", "lineend", "eolterm")
EDGE_CLASSES = ("pasteol", "pastlastline", "midsurrogate")     # the pre-fix conversion panicked on these
CLAMPED_CLASSES = EDGE_CLASSES + ("eolterm",)                   # positions the protocol reads as another one
PACINGS = ("burst", "lockstep", "delayed")

# ----------------------------------------------------------------------------------------------
# text pool: valid grammars, mutated ones, half-typed fragments, UTF-16 and line-ending corners
# ----------------------------------------------------------------------------------------------

POOL = [
    ("valid_small", "token A B;\nstart s;\ns: A b;\nb: B*;\n"),
    ("valid_symbols", "/// a number\ntoken Num='n' Plus='+' LPar='(' RPar=')';\nstart e;\ne: e '+' e | '(' e ')' | Num;\n"),
    ("valid_no_newline", "token A; start s; s: A [A] (A | A A)+;"),
    ("warnings", "token A B C;\nstart s;\ns: A;\nt: B;\n"),
    ("conflict", "token A B;\nstart s;\ns: A* A b;\nb: [B] B;\n"),
    ("mutated_missing_semi", "token A B;\nstart s;\ns: A b\nb: B* c;\n"),
    ("mutated_redefinition", "token A A;\nstart s;\ns: A;\ns: A;\n"),
    ("half_token", "token ;"),
    ("half_token_symbol", "token ='x';\nstart s;\ns: 'x';\n"),
    ("half_name", "s"),
    ("half_paren", "a: ("),
    ("half_rule", "token A;\nstart s;\ns: A | "),
    ("empty", ""),
    ("only_newlines", "\n\n"),
    ("non_bmp", "token A B; // \U0001D54F é\nstart s; /* \U0001D54F */ s: A \U0001D54F B;\nt: é B;\n"),
    ("crlf", "token A B;\r\nstart s;\r\ns: A b;\r\nb: B*;\r\n"),
    ("predicates", "token A B;\nstart s;\ns: ?1 A #1 | B >x;\n"),
    # valid grammars with non-BMP / multi-byte characters IN FRONT OF names on the same line
    ("valid_nonbmp_oneline", "token Smile='\U0001F600' Plus='+' Num='n'; start e; e: e '+' e | '\U0001F600' e | Num;"),
    ("valid_nonbmp_comment", "/* \U0001F389 */ token A B='\U0001F389\U0001F389'; /* \U0001F389\U0001F389 */ start s;\n"
                             "/* \U0001F389 */ s: A b '\U0001F389\U0001F389' A; /* \U0001D54F */ b: B* A;\n"),
    ("valid_bmp_multibyte", "/* \u00e9\u00e9 */ token A B='\u00e9'; start s; s: A b '\u00e9'; /* \u4e2d */ b: B* A;\n"),
]


def utf16len(s):
    return sum(2 if ord(c) > 0xFFFF else 1 for c in s)


class TextInfo:
    """Line / UTF-16 / byte geometry of a text, computed here (not by lelwel or codespan)."""

    def __init__(self, text):
        self.text = text
        self.boff = [0]
        for c in text:
            self.boff.append(self.boff[-1] + len(c.encode("utf-8")))
        self.b2cp = {b: i for i, b in enumerate(self.boff)}
        self.ls = [0]                       # code point index of each line start ('\n' terminated)
        for i, c in enumerate(text):
            if c == "\n":
                self.ls.append(i + 1)
        self.nlines = len(self.ls)
        self.lines = []                     # (start cp, content length cp, terminator length cp)
        for k, st in enumerate(self.ls):
            en = self.ls[k + 1] if k + 1 < self.nlines else len(text)
            seg = text[st:en]
            t = 0
            if seg.endswith("\r\n"):
                t = 2
            elif seg.endswith("\n"):
                t = 1
            self.lines.append((st, len(seg) - t, t))
        self.tokens = lex_names(text)
        self.occ = Occurrences(text)

    def line_content(self, k):
        st, n, _ = self.lines[k]
        return self.text[st:st + n]

    def cp_to_pos(self, i):
        k = bisect.bisect_right(self.ls, i) - 1
        return (k, utf16len(self.text[self.ls[k]:i]))

    def byte_to_pos(self, b):
        i = self.b2cp.get(b)
        if i is None:
            return None
        return self.cp_to_pos(i)

    def pos_to_cp(self, line, ch):
        """Code point index of a protocol position, None when it is not on a code point boundary
        of that line (content or terminator)."""
        if line >= self.nlines:
            return None
        st, n, t = self.lines[line]
        u = 0
        for j in range(n + t + 1):
            if u == ch:
                return st + j
            if j < n + t:
                u += 2 if ord(self.text[st + j]) > 0xFFFF else 1
            if u > ch:
                return None
        return None

    def classify(self, line, ch):
        if line >= self.nlines:
            return "pastlastline"
        st, n, t = self.lines[line]
        content = self.text[st:st + n]
        L = utf16len(content)
        if ch > L + t:
            return "pasteol"
        if ch > L:
            return "eolterm"
        if ch == L:
            return "lineend"
        i = self.pos_to_cp(line, ch)
        if i is None:
            return "midsurrogate"
        for (a, b, _) in self.tokens:
            if a <= i < b:
                return "inname"
        return "intrivia"

    def valid_pos(self, line, ch):
        """Inside the document: an existing line, at most its length (the terminator is tolerated:
        the protocol clamps it to the line end)."""
        if line < 0 or line >= self.nlines:
            return False
        st, n, t = self.lines[line]
        return 0 <= ch <= utf16len(self.text[st:st + n]) + t

    def range_text(self, rng):
        a = self.pos_to_cp(rng["start"]["line"], rng["start"]["character"])
        b = self.pos_to_cp(rng["end"]["line"], rng["end"]["character"])
        if a is None or b is None or a > b:
            return None
        return self.text[a:b]

    def range_inside(self, rng):
        s, e = rng["start"], rng["end"]
        if not (self.valid_pos(s["line"], s["character"]) and self.valid_pos(e["line"], e["character"])):
            return False
        return (s["line"], s["character"]) <= (e["line"], e["character"])

    def clamp_cps(self, line, ch):
        """The protocol's reading of ANY position, applied by the oracle itself: a character greater
        than the line length defaults back to the line length (terminator excluded); a line beyond
        the document is the end of the document; inside a surrogate pair either neighbouring code
        point boundary is acceptable.  Returns the acceptable code point indices (one or two)."""
        if line >= self.nlines:
            return [len(self.text)]
        st, n, _ = self.lines[line]
        u = 0
        for j in range(n):
            if u == ch:
                return [st + j]
            w = 2 if ord(self.text[st + j]) > 0xFFFF else 1
            if u < ch < u + w:
                return [st + j, st + j + 1]
            u += w
        return [st + n]

    def canonical_positions(self, line, ch):
        """The in-range protocol positions that (line, ch) means."""
        return [self.cp_to_pos(i) for i in self.clamp_cps(line, ch)]

    def name_at(self, line, ch):
        for i in self.clamp_cps(line, ch):
            for (a, b, w) in self.tokens:
                if a <= i < b:
                    return w
        return None

    def positions(self):
        """Every UTF-16 position of every line, past the line end and past the last line included."""
        out = []
        for k in range(self.nlines + 1):
            if k < self.nlines:
                st, n, t = self.lines[k]
                L = utf16len(self.text[st:st + n])
                cols = list(range(0, L + t + 3)) + [L + 100]
            else:
                cols = [0, 1]
            for c in cols:
                out.append((k, c, self.classify(k, c)))
        return out


_LEX = re.compile(r"//[^\n]*|/\*.*?\*/|'(?:[^'\\\n]|\\.)*'|[A-Za-z_][A-Za-z0-9_]*", re.S)


def lex_names(text):
    """Identifiers and quoted symbols outside comments: (start cp, end cp, spelling)."""
    out = []
    for m in _LEX.finditer(text):
        w = m.group(0)
        if w.startswith("//") or w.startswith("/*"):
            continue
        out.append((m.start(), m.end(), w))
    return out


_TOK = re.compile(r"//[^\n]*|/\*.*?\*/|'(?:[^'\\\n]|\\.)*'|[A-Za-z_][A-Za-z0-9_]*|[?#]\d+|[<>@][A-Za-z0-9_]*|\s+|.", re.S)


class Occurrences:
    """Names of a grammar text, found with the oracle's own tokenizer: where every token and rule is
    declared and where it is used in rule bodies.  `ok` only if the text has exactly the simple
    shape this reader understands (otherwise nothing is required of the server)."""

    def __init__(self, text):
        self.ok = True
        self.decls = {}       # ("tok", name) / ("rule", name) -> dict(a, b, na, nb, sym)
        self.bysym = {}       # symbol spelling -> token name
        self.uses = []        # dict(a, b, w, decl)
        toks = []
        for m in _TOK.finditer(text):
            w = m.group(0)
            if w.isspace() or w.startswith("//") or w.startswith("/*"):
                continue
            k = "sym" if w[0] == "'" else "id" if re.match(r"[A-Za-z_]", w) else "op"
            toks.append((m.start(), m.end(), k, w))
        decl = []
        bodies = []
        for t in toks:
            decl.append(t)
            if t[3] != ";":
                continue
            d, decl = decl, []
            head = d[0]
            if head[2] != "id":
                self.ok = False
            elif head[3] == "token":
                i = 1
                while i < len(d) - 1:
                    if d[i][2] != "id":
                        self.ok = False
                        break
                    name, sym, end = d[i], None, d[i][1]
                    if i + 2 < len(d) and d[i + 1][3] == "=" and d[i + 2][2] == "sym":
                        sym, end = d[i + 2], d[i + 2][1]
                        i += 2
                    i += 1
                    if ("tok", name[3]) in self.decls or (sym and sym[3] in self.bysym):
                        self.ok = False
                    self.decls[("tok", name[3])] = {"a": name[0], "b": end, "na": name[0], "nb": name[1], "uses": []}
                    if sym:
                        self.bysym[sym[3]] = name[3]
            elif head[3] in ("start", "right", "skip", "part"):
                pass
            else:
                j = 1
                if j < len(d) and d[j][3] == "^":
                    j += 1
                if j >= len(d) or d[j][3] != ":" or ("rule", head[3]) in self.decls:
                    self.ok = False
                    continue
                self.decls[("rule", head[3])] = {"a": head[0], "b": d[-1][1], "na": head[0], "nb": head[1], "uses": []}
                bodies.append(d[j + 1:-1])
        if decl:
            self.ok = False
        for body in bodies:
            for (a, b, k, w) in body:
                if k == "sym":
                    key = ("tok", self.bysym.get(w))
                elif k == "id":
                    key = ("tok" if w[0].isupper() else "rule", w)
                else:
                    continue
                dd = self.decls.get(key)
                if dd is None:
                    self.ok = False
                    continue
                u = {"a": a, "b": b, "w": w, "decl": dd}
                dd["uses"].append(u)
                self.uses.append(u)

    def use_at(self, cps):
        for u in self.uses:
            if all(u["a"] <= i < u["b"] for i in cps):
                return u
        return None

    def declname_at(self, cps):
        for dd in self.decls.values():
            if all(dd["na"] <= i < dd["nb"] for i in cps):
                return dd
        return None


_infos = {}


def info(text):
    ti = _infos.get(text)
    if ti is None:
        ti = _infos[text] = TextInfo(text)
    return ti


# ----------------------------------------------------------------------------------------------
# building lelwel-ls from the tree under test
# ----------------------------------------------------------------------------------------------

def ensure_ls():
    env = dict(os.environ, CARGO_NET_OFFLINE="true", CARGO_TARGET_DIR=LS_TARGET)
    t0 = time.time()
    # third-party debug assertions are not part of the shipped (release) behaviour
    r = subprocess.run(["cargo", "build", "--offline", "--features", "lsp", "--bin", "lelwel-ls",
                        "--config", "profile.dev.package.dprint-core.debug-assertions=false"], cwd=REPO,
                       env=env, stdout=subprocess.PIPE, stderr=subprocess.STDOUT, text=True)
    if r.returncode != 0:
        sys.stderr.write(r.stdout[-6000:])
        raise ToolError("cargo build of lelwel-ls failed")
    log("lelwel-ls built from %s in %.1fs" % (REPO, time.time() - t0))
    os.makedirs(os.path.join(BUILD, "lsp"), exist_ok=True)
    return os.path.join(LS_TARGET, "debug", "lelwel-ls")


# ----------------------------------------------------------------------------------------------
# sessions
# ----------------------------------------------------------------------------------------------

class Texts:
    """Text ids: pool texts are 1..len(POOL); every other distinct text gets the next id."""

    def __init__(self):
        self.by_text = {}
        self.texts = [None]
        for _, t in POOL:
            self.id(t)

    def id(self, text):
        i = self.by_text.get(text)
        if i is None:
            i = len(self.texts)
            self.by_text[text] = i
            self.texts.append(text)
        return i


def req_step(op, doc, line, ch, rng):
    st = {"op": op, "doc": doc}
    if op in POSITIONAL:
        st["line"] = line
        st["character"] = ch
    if op == "references":
        st["include_declaration"] = rng.random() < 0.6
    return st


def pick_position(ti, classes, rng):
    cands = [p for p in ti.positions() if p[2] in classes]
    if not cands:
        return None
    # names are rarer than trivia in position space: favour them
    names = [p for p in cands if p[2] == "inname"]
    if names and rng.random() < 0.5:
        return rng.choice(names)
    return rng.choice(cands)


def instantiate(hist, rng, T, sid):
    """One concrete session for an abstract TLC history."""
    tmap = {}
    dtext = {}
    steps = []
    for m in hist:
        d = m["doc"]
        if m["op"] in ("open", "change"):
            if m["text"] not in tmap:
                tmap[m["text"]] = rng.choice([t for _, t in POOL if t not in tmap.values()])
            text = tmap[m["text"]]
            dtext[d] = text
            steps.append({"op": m["op"], "doc": d, "text": text})
        elif m["op"] == "close":
            steps.append({"op": "close", "doc": d})
        else:
            ti = info(dtext[d])
            if m["kind"] == "formatting":
                steps.append({"op": "formatting", "doc": d})
                continue
            op = rng.choice(POSITIONAL)
            p = pick_position(ti, EDGE_CLASSES if m["pos"] == "pasteol" else OK_CLASSES, rng)
            steps.append(req_step(op, d, p[0], p[1], rng))
    return {"id": sid, "origin": "tlc", "steps": steps}


def sweep_sessions(T, kinds, every):
    """open(text); request at p; the same request at (0,0): every position of every pool text."""
    out = []
    for name, text in POOL:
        ti = info(text)
        for n, (l, c, cls) in enumerate(ti.positions()):
            for op in kinds:
                if every > 1 and cls in OK_CLASSES and (n + len(op)) % every:
                    continue
                st = {"op": op, "doc": 1, "line": l, "character": c}
                if op == "references":
                    st["include_declaration"] = bool((l + c) % 2)
                again = dict(st, line=0, character=0)
                out.append({"id": "sweep:%s:%s:%d:%d" % (name, op, l, c), "origin": "sweep",
                            "steps": [{"op": "open", "doc": 1, "text": text}, st, again]})
    return out


def sweepall_sessions():
    """One long session per pool text: open, then hover / definition / references(with declaration)
    at EVERY UTF-16 position of every line (past the line end and past the last line included)."""
    out = []
    for name, text in POOL:
        steps = [{"op": "open", "doc": 1, "text": text}]
        for (l, c, cls) in info(text).positions():
            for op in ("hover", "definition", "references"):
                st = {"op": op, "doc": 1, "line": l, "character": c}
                if op == "references":
                    st["include_declaration"] = True
                steps.append(st)
        out.append({"id": "sweepall:%s" % name, "origin": "sweepall", "steps": steps})
    return out


WORDS = ["token", "start", "right", "skip", "part", "A", "B", "s", "b", ";", ":", "|", "(", ")", "[", "]", "*", "+",
         "'x'", "=", "^", "?1", "#1", ">n", "<1", "/", "~", "// c\n", "/* c */", "\n", " ", "\U0001D54F", "é"]


def mutate(text, rng):
    k = rng.random()
    if k < 0.35 and text:                 # half-typed: a prefix, as if the user were typing
        return text[:rng.randrange(len(text) + 1)]
    if k < 0.6 and text:
        i = rng.randrange(len(text))
        return text[:i] + text[i + rng.randint(1, 3):]
    i = rng.randrange(len(text) + 1)
    return text[:i] + rng.choice(WORDS) + text[i:]


def random_session(rng, T, sid, edge_p):
    ndocs = rng.choice((1, 2, 2, 3))
    n = rng.randint(10, 40)
    cur = {}
    steps = []
    valid = [t for nm, t in POOL if nm.startswith("valid") or nm in ("warnings", "conflict", "crlf", "non_bmp")]
    while len(steps) < n:
        d = rng.randint(1, ndocs)
        if d not in cur:
            text = rng.choice(POOL)[1] if rng.random() < 0.6 else mutate(rng.choice(valid), rng)
            cur[d] = text
            steps.append({"op": "open", "doc": d, "text": text})
            continue
        r = rng.random()
        if r < 0.22:
            text = mutate(cur[d], rng) if rng.random() < 0.7 else rng.choice(POOL)[1]
            cur[d] = text
            steps.append({"op": "change", "doc": d, "text": text})
        elif r < 0.28:
            del cur[d]
            steps.append({"op": "close", "doc": d})
        elif r < 0.36:
            steps.append({"op": "formatting", "doc": d})
        else:
            ti = info(cur[d])
            classes = EDGE_CLASSES if rng.random() < edge_p else OK_CLASSES
            p = pick_position(ti, classes, rng) or pick_position(ti, OK_CLASSES + EDGE_CLASSES, rng)
            steps.append(req_step(rng.choice(POSITIONAL), d, p[0], p[1], rng))
    return {"id": sid, "origin": "random", "steps": steps}


# ----------------------------------------------------------------------------------------------
# slow documents: the analysis of a long chain of rules takes seconds (it is strongly super-linear
# in the chain length), so the main thread really waits for the analyzer thread of that document
# ----------------------------------------------------------------------------------------------

def chain_grammar(n, variant):
    out = ["token A='a' B='b' C='c'%s;" % (" D='d'" if variant == 1 else " E='e' F='f'"), "start r0;"]
    for i in range(n):
        out.append("r%d: A %s | B C ;" % (i, "r%d" % (i + 1) if i + 1 < n else "A"))
    out.append("unused: B ;" if variant == 1 else "idle: C ;\nspare: B ;")
    return "\n".join(out) + "\n"


def calibrate_slow(want=3.0):
    """Smallest chain length of the ladder whose open() takes at least `want` seconds right now."""
    n = dt = 0
    for n in (150, 220, 300, 400, 520, 700):
        t0 = time.time()
        run_inproc([{"id": "cal", "steps": [{"op": "open", "doc": 1, "text": chain_grammar(n, 1)}]}], "cal")
        dt = time.time() - t0
        if dt >= want:
            break
    return n, dt


def slow_sessions(n):
    a, b = chain_grammar(n, 1), chain_grammar(n, 2)
    small, warn = POOL[0][1], POOL[3][1]
    decl = lambda i: (2 + i, 1)          # inside the name of the declaration of r<i>
    use = lambda i: (2 + i, 6 + len(str(i)))   # inside the reference to r<i+1> in the body of r<i>
    def req(op, doc, pos):
        st = {"op": op, "doc": doc, "line": pos[0], "character": pos[1]}
        if op == "references":
            st["include_declaration"] = True
        return st
    s1 = [{"op": "open", "doc": 1, "text": a}, req("hover", 1, decl(5)), req("definition", 1, use(7)),
          req("hover", 1, decl(9)), {"op": "change", "doc": 1, "text": b}, req("hover", 1, decl(3)),
          req("references", 1, decl(4)), req("definition", 1, use(2))]
    s2 = [{"op": "open", "doc": 1, "text": small}, {"op": "open", "doc": 2, "text": a}, req("hover", 1, (2, 0)),
          req("hover", 2, decl(6)), {"op": "change", "doc": 2, "text": warn}, req("hover", 2, (2, 0)),
          {"op": "change", "doc": 1, "text": b}, req("definition", 1, use(1)), {"op": "close", "doc": 2},
          req("hover", 1, decl(8))]
    return [{"id": "slow:1", "origin": "slow", "steps": s1}, {"id": "slow:2", "origin": "slow", "steps": s2}]


def annotate(sess, T):
    """Adds to every step the text id it is about (`tid`) and the position class (`pc`)."""
    cur = {}
    for st in sess["steps"]:
        d = st["doc"]
        if st["op"] in ("open", "change"):
            cur[d] = T.id(st["text"])
            st["tid"] = cur[d]
        elif st["op"] == "close":
            cur.pop(d, None)
            st["tid"] = 0
        else:
            st["tid"] = cur[d]
            st["pc"] = info(T.texts[cur[d]]).classify(st["line"], st["character"]) if st["op"] in POSITIONAL else ""
    return sess


def fresh_pairs(sessions, T):
    """(text id, request) pairs whose fresh-server reply is needed, the clamped twins included."""
    out = []
    for s in sessions:
        for st in s["steps"]:
            if st["op"] in ("open", "change", "close"):
                continue
            out.append((st["tid"], Refs.reqkey(st)))
            if st.get("pc") in CLAMPED_CLASSES:
                ti = info(T.texts[st["tid"]])
                for (cl, cc) in ti.canonical_positions(st["line"], st["character"]):
                    out.append((st["tid"], Refs.reqkey(dict(st, line=cl, character=cc))))
    return out


def nontrivial(sess):
    changed = False
    for st in sess["steps"]:
        if st["op"] == "change":
            changed = True
        elif st["op"] not in ("open", "close"):
            if changed or st.get("pc") in EDGE_CLASSES + ("eolterm", "lineend"):
                return True
    return False


# ----------------------------------------------------------------------------------------------
# running sessions
# ----------------------------------------------------------------------------------------------

def strip(sess):
    return {"id": sess["id"], "steps": [{k: v for k, v in st.items() if k not in ("tid", "pc")} for st in sess["steps"]]}


_TIMEOUT_MS = "10000"      # per session (in process) / per awaited reply (stdio)
_PER_SHARD = 200


def run_inproc(sessions, tag):
    if not sessions:
        return {}
    d = cache_dir("p7")
    nshard = max(1, min(12, NCPU - 2, (len(sessions) + _PER_SHARD - 1) // _PER_SHARD))
    jobs = []
    for k in range(nshard):
        p = os.path.join(d, "inproc-%s-%d.ndjson" % (tag, k))
        write_ndjson(p, [strip(s) for s in sessions[k::nshard]])
        jobs.append(p)

    def run(p):
        r = subprocess.run([harness_bin("lspdrive"), "inproc", p, _TIMEOUT_MS], stdout=subprocess.PIPE,
                           stderr=subprocess.PIPE, text=True, timeout=3600)
        if r.returncode != 0:
            raise ToolError("lspdrive inproc failed: %s" % r.stderr[-2000:])
        return [json.loads(l) for l in r.stdout.splitlines() if l.strip()]
    out = {}
    for recs in parallel(run, jobs):
        for r in recs:
            out[r["id"]] = r
    if len(out) != len(sessions):
        raise ToolError("lspdrive inproc returned %d of %d sessions" % (len(out), len(sessions)))
    return out


def run_stdio(ls, sessions, pacing, tag):
    if not sessions:
        return {}
    d = cache_dir("p7")
    nshard = max(1, min(10, NCPU - 2, (len(sessions) + 9) // 10))
    jobs = []
    for k in range(nshard):
        p = os.path.join(d, "stdio-%s-%s-%d.ndjson" % (tag, pacing, k))
        write_ndjson(p, [strip(s) for s in sessions[k::nshard]])
        jobs.append(p)

    def run(p):
        r = subprocess.run([harness_bin("lspdrive"), "stdio", ls, p, pacing, _TIMEOUT_MS], stdout=subprocess.PIPE,
                           stderr=subprocess.PIPE, text=True, timeout=3600)
        if r.returncode != 0:
            raise ToolError("lspdrive stdio failed: %s" % r.stderr[-2000:])
        return [json.loads(l) for l in r.stdout.splitlines() if l.strip()]
    out = {}
    for recs in parallel(run, jobs):
        for r in recs:
            out[r["id"]] = r
    return out


# ----------------------------------------------------------------------------------------------
# references: the command-line check (probe export-texts) and a fresh server on the latest text
# ----------------------------------------------------------------------------------------------

class Refs:
    def __init__(self, T):
        self.T = T
        self.export = {}      # tid -> export record of probe (diags with byte spans, nodes, rules)
        self.fresh = {}       # (tid, reqkey) -> result of the same request on a fresh server
        self.fresh_runs = 0

    def need_exports(self, tids):
        todo = sorted(t for t in set(tids) if t and t not in self.export)
        if not todo:
            return
        p = os.path.join(cache_dir("p7"), "texts-%d.ndjson" % len(self.export))
        write_ndjson(p, [{"name": str(t), "text": self.T.texts[t]} for t in todo])
        for t, e in zip(todo, probe(["export-texts", p], timeout=1800)):
            self.export[t] = e

    @staticmethod
    def reqkey(st):
        return (st["op"], st.get("line", -1), st.get("character", -1), bool(st.get("include_declaration", False)))

    def need_fresh(self, pairs):
        todo = sorted(set(p for p in pairs if p not in self.fresh))
        if not todo:
            return
        sess = []
        for n, (tid, key) in enumerate(todo):
            st = {"op": key[0], "doc": 9}
            if key[0] in POSITIONAL:
                st["line"], st["character"] = key[1], key[2]
            if key[0] == "references":
                st["include_declaration"] = key[3]
            sess.append({"id": "fresh:%d" % n, "steps": [{"op": "open", "doc": 9, "text": self.T.texts[tid]}, st]})
        recs = run_inproc(sess, "fresh%d" % len(self.fresh))
        self.fresh_runs += len(sess)
        for n, pair in enumerate(todo):
            r = recs["fresh:%d" % n]
            res = r["results"]
            if r.get("hang") or len(res) < 2:
                self.fresh[pair] = {"fresh_failed": True}
            elif res[1].get("thread_panics"):
                self.fresh[pair] = {"thread_panic": True}
            else:
                self.fresh[pair] = {"result": norm_uri(res[1].get("result"), 9)}


def norm_uri(v, doc):
    """Replaces the document's own uri by a constant so that replies of different documents compare."""
    if isinstance(v, dict):
        return {k: norm_uri(x, doc) for k, x in v.items()}
    if isinstance(v, list):
        return [norm_uri(x, doc) for x in v]
    if isinstance(v, str) and v == "file:///verif/build/lsp/doc%d.llw" % doc:
        return "DOC"
    return v


def canon(v):
    """Order-insensitive form for reference lists (hash map iteration order is not contractual)."""
    if isinstance(v, list) and v and all(isinstance(x, dict) and "range" in x and "uri" in x for x in v):
        return sorted(json.dumps(x, sort_keys=True) for x in v)
    return v


SEV = {"Error": 1, "Bug": 1, "Warning": 2}


def expected_diags(e, ti):
    """What the contract requires of the published list, from the command-line check's diagnostics:
    one non-hint entry per diagnostic with code, severity, message and primary range."""
    out = []
    for d in e["diags"]:
        prim = next((l for l in d["labels"] if l["primary"]), None)
        rng = None
        if prim is not None:
            a, b = ti.byte_to_pos(prim["lo"]), ti.byte_to_pos(prim["hi"])
            rng = (a, b)
        out.append({"code": d["code"], "severity": SEV.get(d["sev"], 4), "msg": d["msg"],
                    "pmsg": prim["msg"] if prim else "", "range": rng})
    return out


def diag_mismatch(published, e, ti):
    """None if the published diagnostics are those of the command-line check, else (what, detail)."""
    if "panic" in e:
        return None        # the reference itself panics on this text: C12's business, not judged here
    exp = expected_diags(e, ti)
    nhint_exp = [x for x in exp if x["severity"] != 4]
    got = [g for g in published if g.get("severity") != 4]
    if len(got) != len(nhint_exp):
        return ("count", "published %d non-hint diagnostics, the check gives %d" % (len(got), len(nhint_exp)))
    for g, x in zip(got, nhint_exp):
        if (g.get("code") or "") != x["code"]:
            return ("code", "%r vs %r" % (g.get("code"), x["code"]))
        if g.get("severity") != x["severity"]:
            return ("severity", "%r vs %r for %s" % (g.get("severity"), x["severity"], x["code"]))
        if g.get("message") not in (x["msg"], x["msg"] + " " + x["pmsg"]):
            return ("message", "%r vs %r" % (g.get("message"), x["msg"]))
        if x["range"] is not None:
            if x["range"][0] is None or x["range"][1] is None:
                return ("range", "the check's span is not on a character boundary: %r" % (x,))
            r = g["range"]
            gr = ((r["start"]["line"], r["start"]["character"]), (r["end"]["line"], r["end"]["character"]))
            if gr != x["range"]:
                return ("range", "%r vs %r for %s %s" % (gr, x["range"], x["code"], x["msg"]))
    return None


_SETS = re.compile(r"\*\*(First|Follow|Predict|Recovery):\*\* \{([^}]*)\}")


def hover_mismatch(res, e, ti):
    """Hover shows the analysis sets: the First/Follow/Predict shown are those of a node of the
    command-line analysis with exactly the hovered span.  Returns None / 'unjudged' / (what, detail)."""
    if "panic" in e:
        return "unjudged"
    rng = res.get("range")
    msg = (res.get("contents") or {}).get("value", "")
    shown = {k.lower(): set(x for x in v.split(", ") if x) for k, v in _SETS.findall(msg)}
    if not all(k in shown for k in ("first", "follow", "predict")):
        return ("format", "no First/Follow/Predict in %r" % msg)
    a = ti.pos_to_cp(rng["start"]["line"], rng["start"]["character"])
    b = ti.pos_to_cp(rng["end"]["line"], rng["end"]["character"])
    if a is None or b is None:
        return ("range", "hover range not on character boundaries")
    lo, hi = ti.boff[a], ti.boff[b]
    cands = [n for n in e["nodes"] if n["lo"] == lo and n["hi"] == hi]
    if not cands:
        # a rule declaration shows the sets of its body
        inner = [n for n in e["nodes"] if lo <= n["lo"] and n["hi"] <= hi]
        bodies = {r["body"] for r in e["rules"]}
        cands = [n for i, n in enumerate(e["nodes"]) if (i + 1) in bodies and n in inner]
    if not cands:
        return "unjudged"

    def vis(s):
        if s is None:
            return set()
        return {("ɛ" if x == "eps" else x) for x in s if x == "EOF" or not x.startswith("EOF")}
    for n in cands:
        if all(shown[k] == vis(n[k]) for k in ("first", "follow", "predict")):
            return None
    n = cands[0]
    return ("sets", "hover shows %r, analysis has first=%r follow=%r predict=%r" % (
        {k: sorted(v) for k, v in shown.items()}, n["first"], n["follow"], n["predict"]))


# ----------------------------------------------------------------------------------------------
# the oracle: one recorded session against the contract
# ----------------------------------------------------------------------------------------------

def is_position_unwrap(p):
    """The panic is codespan's position conversion failing (no line numbers: they move with edits)."""
    return ("codespan-lsp" in (p.get("at") or "") or "ColumnTooLarge" in (p.get("msg") or "")
            or "LineTooLarge" in (p.get("msg") or ""))


def digest(s):
    s = re.sub(r"\d+", "N", s or "")
    return re.sub(r"[^A-Za-z0-9_.]+", "_", s)[:60] + "_" + hashlib.sha1((s or "").encode()).hexdigest()[:6]


def cause_of(root):
    """Cause class of a panic: where it was raised (crate- or repository-relative file:line) and its message."""
    at = root.get("at") or ""
    at = re.sub(r"^.*/registry/src/[^/]+/", "", at)
    at = re.sub(r"^(/repo/|%s/)" % re.escape(REPO.rstrip("/")), "", at)
    at = re.sub(r":\d+$", "", at)
    m = re.match(r"^([A-Za-z_-]+?)-\d[\d.]*/(?:.*/)?([^/]+)$", at)       # <crate>-<version>/.../file.rs:line
    if m:
        at = m.group(1) + "/" + m.group(2)
    elif at.startswith("src/"):
        at = at[4:]
    return re.sub(r"[^A-Za-z0-9_.]+", "_", at)[:40]


def ranges_of(op, res):
    if res is None:
        return []
    if op == "hover":
        return [res["range"]] if res.get("range") else []
    if op == "definition":
        return [res["range"]] if isinstance(res, dict) else [x["range"] for x in res]
    if op == "references":
        return [x["range"] for x in res]
    if op == "formatting":
        return [x["range"] for x in res]
    return []


class Judge:
    def __init__(self, T, refs):
        self.T = T
        self.refs = refs
        self.viol = []            # (key, desc, session id, mode)
        self.counts = {}
        self.notes = {"diagnostics_judged": 0, "hover_judged": 0, "definition_judged": 0, "references_judged": 0,
                      "fresh_judged": 0, "ranges_judged": 0, "clamp_equivalence_judged": 0, "names_hover_judged": 0, "names_definition_judged": 0,
                      "names_references_judged": 0, "clamp_equivalence_mismatch": 0,
                      "latent_thread_panics": 0, "hover_unjudged": 0, "definition_on_non_name": 0,
                      "definition_other_file": 0, "range_in_terminator": 0, "reference_text_panics": 0}
        self.defref_queries = []  # (tid, line, ch) -> follow-up reference queries
        self.clamp_examples = []
        self.unmodelled = set()   # sessions with an analyzer-thread panic the model has no deviation for

    def flag(self, key, desc, sess, rec):
        self.counts[key] = self.counts.get(key, 0) + 1
        self.viol.append((key, desc, sess["id"], rec.get("mode"), rec.get("pacing")))

    @staticmethod
    def thread_panics_of(rec):
        out = []
        for r in rec["results"]:
            for p in r.get("thread_panics") or []:
                if p.get("thread") != "session":
                    out.append((r["i"], p))
        for p in rec.get("stderr_panics") or []:
            if p.get("thread") != "main":
                out.append((None, p))
        return out

    def root_cause(self, sess, rec, at):
        """(cause class, root panic, trigger step): the first panic of the run and the request behind it."""
        steps = sess["steps"]
        tp = self.thread_panics_of(rec)
        if tp:
            trigger, root = tp[0]
            if is_position_unwrap(root):
                if trigger is None:   # stdio: the first request with a position the conversion rejects
                    trigger = next((i for i, st in enumerate(steps[:at + 1]) if st.get("pc") in EDGE_CLASSES), None)
                if trigger is not None and steps[trigger].get("pc") in EDGE_CLASSES:
                    st = steps[trigger]
                    fam = "position_mid_surrogate" if st.get("pc") == "midsurrogate" else "position_past_line_end"
                    return "%s:%s:%s" % (fam, st["op"], st.get("pc")), root, trigger
            if trigger is None:   # stdio: unknown; the step is found by the in-process run of the same session
                pass
            return cause_of(root), root, trigger
        mains = [p for r in rec["results"] for p in (r.get("thread_panics") or [])] + (rec.get("stderr_panics") or [])
        if mains:
            root = mains[0]
            return cause_of(root), root, None
        return "no_panic_message:" + digest(json.dumps(rec.get("died"), sort_keys=True)), None, None

    def death_key(self, sess, rec, at):
        cause, root, trigger = self.root_cause(sess, rec, at)
        return "ServerAlive:panic:%s" % cause, root, trigger

    def session(self, sess, rec):
        """Judges one recorded run; returns the client-visible event list for trace validation."""
        T = self.T
        steps = sess["steps"]
        events = []
        nviol0 = len(self.viol)
        hist_of_doc = {}
        poisoned = {}             # doc -> step whose request killed its analyzer thread
        results = {r["i"]: r for r in rec["results"]}
        stdio_trigger = None
        if rec.get("mode") == "stdio" and self.thread_panics_of(rec):
            _, _, stdio_trigger = self.root_cause(sess, rec, len(steps) - 1)
        if rec.get("hang"):
            i = len(rec["results"])
            op = steps[i]["op"] if i < len(steps) else "shutdown"
            self.flag("ServerAlive:hang:%s" % op, "session %s (%s): no reply within the watchdog time at step %d %r"
                      % (sess["id"], rec.get("mode"), i, steps[i] if i < len(steps) else None), sess, rec)
        for i, st in enumerate(steps):
            r = results.get(i)
            op, d, tid = st["op"], st["doc"], st["tid"]
            ev = {"op": op if op in ("open", "change", "close") else "req", "doc": d,
                  "text": tid if op in ("open", "change") else 0,
                  "kind": "" if op in ("open", "change", "close") else op,
                  "pos": st.get("pc", "") or "", "out": "", "tag": 0}
            if op in ("open", "change"):
                hist_of_doc.setdefault(d, []).append(tid)
            if r is None:
                break
            if r.get("dead"):
                ev["out"] = "dead"
                events.append(ev)
                key, root, trig = self.death_key(sess, rec, i)
                self.flag(key, "session %s (%s/%s): the server died handling step %d %r: %r; first panic: %r (triggered by "
                          "step %r %r)" % (sess["id"], rec.get("mode"), rec.get("pacing"), i, strip_step(st), r.get("panic"),
                                           root, trig, strip_step(steps[trig]) if trig is not None else None), sess, rec)
                break
            if r.get("unanswered") or "error" in r:
                what = "unanswered" if r.get("unanswered") else "error_response"
                self.flag("EveryRequestAnswered:%s:%s" % (what, op), "session %s (%s/%s): step %d %r got %r" % (
                    sess["id"], rec.get("mode"), rec.get("pacing"), i, strip_step(st), r), sess, rec)
                break
            res = r.get("result")
            tpan = [p for p in (r.get("thread_panics") or []) if p.get("thread") != "session"]
            text = T.texts[tid] if tid else ""
            ti = info(text)
            if op == "close":
                ev["out"] = "closed"
                hist_of_doc.pop(d, None)
                events.append(ev)
                continue
            if tpan or i == stdio_trigger:
                if tpan and not is_position_unwrap(tpan[0]):
                    self.unmodelled.add(sess["id"])
                ev["out"] = "default"
                poisoned[d] = i
                self.notes["latent_thread_panics"] += 1
                events.append(ev)
                continue
            if d in poisoned and res in (None, []) and op not in ("open", "change"):
                # the analyzer thread of this document is gone: this is the `Err => default` reply
                ev["out"] = "default"
                events.append(ev)
                cause, root, trig = self.root_cause(sess, rec, i)
                self.flag("ServerAlive:panic:%s:reply_lost" % cause,
                          "session %s (%s/%s): step %d %r was answered with the default reply %r because the analyzer thread "
                          "of the document had panicked at step %r %r (%r)" % (
                              sess["id"], rec.get("mode"), rec.get("pacing"), i, strip_step(st), res, trig,
                              strip_step(steps[trig]) if trig is not None else None, root), sess, rec)
                continue
            if op in ("open", "change"):
                ev["out"] = "pub"
                e = self.refs.export[tid]
                if "panic" in e:
                    self.notes["reference_text_panics"] += 1
                mm = diag_mismatch(res.get("diagnostics", []), e, ti)
                self.notes["diagnostics_judged"] += 1
                if mm is None:
                    ev["tag"] = tid
                else:
                    stale = next((o for o in reversed(hist_of_doc[d][:-1])
                                  if diag_mismatch(res.get("diagnostics", []), self.refs.export[o], info(T.texts[o])) is None), None)
                    ev["tag"] = stale or 0
                    self.flag("Diagnostics:%s%s" % (mm[0], ":stale" if stale else ""),
                              "session %s (%s/%s): diagnostics published at step %d differ from the command-line check of the "
                              "latest text (%s)%s; text=%r published=%r" % (
                                  sess["id"], rec.get("mode"), rec.get("pacing"), i, mm[1],
                                  "; they are those of an OLDER text of the document" if stale else "", text,
                                  res.get("diagnostics")), sess, rec)
                # ranges of everything published (hints included) lie inside the document
                for g in res.get("diagnostics", []):
                    if not ti.range_inside(g["range"]):
                        self.flag("RangeInside:diagnostic", "session %s: published range %r outside %r" % (sess["id"], g["range"], text), sess, rec)
                        break
                events.append(ev)
                continue
            # requests
            ev["out"] = "ans"
            mine = canon(norm_uri(res, d))
            fr = self.refs.fresh.get((tid, Refs.reqkey(st)))
            self.notes["fresh_judged"] += fr is not None and "result" in fr
            if fr is not None and "result" in fr and canon(fr["result"]) == mine:
                ev["tag"] = tid
            elif fr is not None and "result" in fr:
                stale = None
                for o in reversed(hist_of_doc.get(d, [])[:-1]):
                    fo = self.refs.fresh.get((o, Refs.reqkey(st)))
                    if fo is not None and "result" in fo and canon(fo["result"]) == mine:
                        stale = o
                        break
                ev["tag"] = stale or 0
                self.flag("Fresh:%s:%s" % ("stale_reply" if stale else "history_dependent", op),
                          "session %s (%s/%s): the reply to step %d %r is not the one a fresh server gives for the latest "
                          "text%s: got %r, fresh %r" % (sess["id"], rec.get("mode"), rec.get("pacing"), i, strip_step(st),
                                                        " but the one for an OLDER text" if stale else "", res, fr["result"]), sess, rec)
            else:
                ev["tag"] = tid      # no usable reference (the fresh run itself panicked): not judged
            # an out-of-range position means a position inside the document (protocol rule): the reply
            # should be the one for that position.  Not a clause of C20 => counted, not an alarm.
            if st.get("pc") in CLAMPED_CLASSES:
                alts = []
                for (cl, cc) in ti.canonical_positions(st["line"], st["character"]):
                    fc = self.refs.fresh.get((tid, Refs.reqkey(dict(st, line=cl, character=cc))))
                    if fc is not None and "result" in fc:
                        alts.append(canon(fc["result"]))
                if alts:
                    self.notes["clamp_equivalence_judged"] += 1
                    if mine not in alts:
                        self.notes["clamp_equivalence_mismatch"] += 1
                        if len(self.clamp_examples) < 5:
                            self.clamp_examples.append({"session": sess["id"], "step": strip_step(st), "text": text,
                                                        "reply": res})
            # every returned range inside the document
            in_doc = True
            for g in ranges_of(op, res if op != "definition" or (res and res.get("uri", "").endswith("doc%d.llw" % d)) else None):
                self.notes["ranges_judged"] += 1
                if not ti.range_inside(g):
                    in_doc = False
                    self.flag("RangeInside:%s" % op, "session %s (%s/%s): step %d %r returned the range %r outside the document %r"
                              % (sess["id"], rec.get("mode"), rec.get("pacing"), i, strip_step(st), g, text), sess, rec)
                    break
            if op in ("hover", "definition", "references") and in_doc:
                self.names_oracle(sess, rec, i, st, res, tid, ti)
            if op == "hover" and res and in_doc:
                hm = hover_mismatch(res, self.refs.export[tid], ti)
                if hm == "unjudged":
                    self.notes["hover_unjudged"] += 1
                else:
                    self.notes["hover_judged"] += 1
                if hm is not None and hm != "unjudged":
                    self.flag("Hover:%s" % hm[0], "session %s (%s/%s): step %d %r on %r: %s" % (
                        sess["id"], rec.get("mode"), rec.get("pacing"), i, strip_step(st), text, hm[1]), sess, rec)
            if op == "definition" and res and in_doc:
                if not res.get("uri", "").endswith("doc%d.llw" % d):
                    self.notes["definition_other_file"] += 1
                else:
                    w = ti.name_at(st["line"], st["character"])
                    decl = ti.range_text(res["range"])
                    if w is None:
                        self.notes["definition_on_non_name"] += 1
                    else:
                        self.notes["definition_judged"] += 1
                        names = [x[2] for x in lex_names(decl or "")]
                        is_rule = re.match(r"^[A-Za-z_]\w*\s*\^?\s*:", decl or "") is not None
                        okn = names[:1] if is_rule else names[:2]   # rule name | token name and its symbol
                        if w not in okn:
                            self.flag("DefRef:definition_names_other_symbol", "session %s: definition of %r at step %d %r is %r in %r"
                                      % (sess["id"], w, i, strip_step(st), decl, text), sess, rec)
                        self.defref_queries.append((sess, rec, i, tid, res["range"]))
            if op == "references" and res and in_doc:
                here = ti.clamp_cps(st["line"], st["character"])
                self.notes["references_judged"] += 1
                spell = set()
                for g in res:
                    a = ti.pos_to_cp(g["range"]["start"]["line"], g["range"]["start"]["character"])
                    b = ti.pos_to_cp(g["range"]["end"]["line"], g["range"]["end"]["character"])
                    if st.get("include_declaration") and any(a <= h < b for h in here):
                        continue      # the node under the cursor itself (the "declaration")
                    spell.add(text[a:b])
                bad = [w for w in spell if not re.fullmatch(r"[A-Za-z_]\w*|'(?:[^'\\\n]|\\.)*'", w)]
                idents = [w for w in spell if not w.startswith("'")]
                syms = [w for w in spell if w.startswith("'")]
                if bad or len(idents) > 1 or len(syms) > 1:
                    self.flag("DefRef:references_name_different_things", "session %s: references at step %d %r cover %r in %r"
                              % (sess["id"], i, strip_step(st), sorted(spell), text), sess, rec)
            events.append(ev)
        else:
            if poisoned and not rec.get("died") and len(self.viol) == nviol0:
                # the session ended with a dead analyzer thread behind an open document and nothing
                # visible to the client yet: the next message for that document would kill the server
                cause, root, trig = self.root_cause(sess, rec, len(steps) - 1)
                self.flag("ServerAlive:panic:%s:thread_died" % cause,
                          "session %s (%s/%s): the analyzer thread of document %r panicked at step %r %r (%r); the client got the "
                          "default reply and the document stays open with a dead thread" % (
                              sess["id"], rec.get("mode"), rec.get("pacing"), sorted(poisoned), trig,
                              strip_step(steps[trig]) if trig is not None else None, root), sess, rec)
            if rec.get("died"):
                # every step was answered, yet the process did not survive until a clean shutdown
                key, root, trig = self.death_key(sess, rec, len(steps) - 1)
                self.flag(key, "session %s (%s/%s): the server died (%r) although every step got its reply; first panic %r, "
                          "triggered by step %r" % (sess["id"], rec.get("mode"), rec.get("pacing"), rec["died"], root, trig), sess, rec)
        return events

    def names_oracle(self, sess, rec, i, st, res, tid, ti):
        """Definition, hover and references against the names of the text itself (own tokenizer, own
        UTF-16 geometry).  Only for texts the command-line check accepts without errors and whose
        shape the oracle's reader understands; only for positions strictly inside an occurrence."""
        e = self.refs.export[tid]
        if "panic" in e or e.get("haserror") or not ti.occ.ok:
            return
        op = st["op"]
        cps = ti.clamp_cps(st["line"], st["character"])
        where = "session %s (%s/%s): step %d %r on %r" % (sess["id"], rec.get("mode"), rec.get("pacing"), i,
                                                         strip_step(st), ti.text)

        def cpr(rng):
            return (ti.pos_to_cp(rng["start"]["line"], rng["start"]["character"]),
                    ti.pos_to_cp(rng["end"]["line"], rng["end"]["character"]))
        u = ti.occ.use_at(cps)
        if op == "hover" and u is not None:
            self.notes["names_hover_judged"] += 1
            if not res:
                self.flag("Hover:missing:%s" % st.get("pc"), "%s: no hover although the position is inside the name %r"
                          % (where, u["w"]), sess, rec)
            elif cpr(res["range"]) != (u["a"], u["b"]):
                self.flag("Hover:wrong_target", "%s: hover describes %r (%r), the name under the cursor is %r"
                          % (where, ti.range_text(res["range"]), res["range"], u["w"]), sess, rec)
        if op == "definition" and u is not None:
            self.notes["names_definition_judged"] += 1
            d = u["decl"]
            if not res:
                self.flag("Definition:missing:%s" % st.get("pc"), "%s: no definition although the position is inside the "
                          "name %r declared at %r" % (where, u["w"], ti.cp_to_pos(d["na"])), sess, rec)
            elif not res.get("uri", "").endswith("doc%d.llw" % st["doc"]) or not (
                    d["a"] <= cpr(res["range"])[0] <= d["na"] and d["nb"] <= cpr(res["range"])[1] <= d["b"]):
                # any range inside the declaration that covers the declared name is "the declaration"
                # (the pinned tree returns the whole declaration; only the name would be just as right)
                self.flag("Definition:wrong_target", "%s: definition of %r is %r (%r), its declaration is %r"
                          % (where, u["w"], ti.range_text(res["range"]), res["range"], ti.text[d["a"]:d["b"]]), sess, rec)
        if op == "references":
            d = ti.occ.declname_at(cps)
            if d is not None:
                self.notes["names_references_judged"] += 1
                got = {cpr(g["range"]) for g in (res or [])}
                missing = [x["w"] + "@%d:%d" % ti.cp_to_pos(x["a"]) for x in d["uses"] if (x["a"], x["b"]) not in got]
                if missing:
                    self.flag("References:missing_occurrence", "%s: references from the declaration %r miss the occurrences %r; "
                              "got %r" % (where, ti.text[d["na"]:d["nb"]], missing, res), sess, rec)

    def defref_round(self):
        """definition(p) = L  =>  references(L.start, with declaration) contains L and the name at p."""
        pairs = []
        for (sess, rec, i, tid, rng) in self.defref_queries:
            pairs.append((tid, ("references", rng["start"]["line"], rng["start"]["character"], True)))
        self.refs.need_fresh(pairs)
        checked = 0
        for (sess, rec, i, tid, rng), pair in zip(self.defref_queries, pairs):
            fr = self.refs.fresh[pair]
            if "result" not in fr:
                continue
            checked += 1
            st = sess["steps"][i]
            ti = info(self.T.texts[tid])
            here = ti.clamp_cps(st["line"], st["character"])
            got = fr["result"] or []
            has_decl = any(g["range"] == rng for g in got)
            covers = False
            for g in got:
                a = ti.pos_to_cp(g["range"]["start"]["line"], g["range"]["start"]["character"])
                b = ti.pos_to_cp(g["range"]["end"]["line"], g["range"]["end"]["character"])
                if a is not None and b is not None and any(a <= h < b for h in here) and g["range"] != rng:
                    covers = True
            if not (has_decl and covers):
                self.flag("DefRef:references_of_definition_miss_the_use",
                          "session %s: definition at step %d %r is %r, but references(there, with declaration) = %r "
                          "(declaration listed: %s, the use listed: %s); text %r" % (
                              sess["id"], i, strip_step(st), rng, got, has_decl, covers, self.T.texts[tid]), sess, rec)
        self.defref_queries = []
        return checked


def strip_step(st):
    return {k: v for k, v in st.items() if k not in ("tid",) and not (k == "text" and len(str(v)) > 60)}


# ----------------------------------------------------------------------------------------------
# trace validation
# ----------------------------------------------------------------------------------------------

def validate_traces(items, tag, workers):
    """items: [(id, events)].  Returns ({id: 'intended'|'asbuilt'|'rejected'}, tlc stats)."""
    d = cache_dir("p7")
    verdict = {}
    stats = {"states": 0, "transitions": 0, "wall": 0.0}
    todo = [(i, ev) for i, ev in items if ev]
    for pass_, asb in (("intended", "0"), ("asbuilt", "1")):
        if not todo:
            break
        nshard = 2 if len(todo) > 400 else 1
        jobs = []
        for k in range(nshard):
            p = os.path.join(d, "trace-%s-%s-%d.ndjson" % (tag, pass_, k))
            write_ndjson(p, [{"id": i, "events": ev} for i, ev in todo[k::nshard]])
            jobs.append(p)

        def run(p):
            return run_tlc("Trace_Lsp", "Trace_Lsp.cfg", env={"TRACE": p, "ASBUILT": asb}, workers=max(1, workers // nshard),
                           timeout=1500, xmx="3g", job="p7-%s-%s-%s" % (tag, pass_, os.path.basename(p)))
        acc = set()
        for res in parallel(run, jobs):
            if not res.ok:
                log(res.raw[-3000:])
                raise ToolError("TLC trace validation failed: %s" % res.error)
            stats["states"] += res.distinct
            stats["transitions"] += res.generated
            stats["wall"] += res.wall
            acc |= {a["id"] for a in res.payload("ACC") if a}
        for i, ev in todo:
            if i in acc:
                verdict[i] = pass_
        todo = [(i, ev) for i, ev in todo if i not in acc]
    for i, ev in todo:
        verdict[i] = "rejected"
    return verdict, stats


def corrupt_traces(items):
    """Binding self-test: recorded sessions with one observation falsified."""
    out = []
    for i, ev in items:
        # (a) a reply after a change, tagged with the older text
        seen = {}
        for k, e in enumerate(ev):
            if e["op"] in ("open", "change"):
                seen.setdefault(e["doc"], []).append(e["text"])
            if e["out"] in ("pub", "ans") and len(set(seen.get(e["doc"], []))) > 1 and e["tag"] == seen[e["doc"]][-1]:
                older = next(t for t in reversed(seen[e["doc"]]) if t != e["tag"])
                c = copy.deepcopy(ev)
                c[k]["tag"] = older
                out.append(("SELFTEST:stale_tag:%s" % i, c))
                break
        # (b) a reply claimed lost (default arm) although the request position is harmless
        for k, e in enumerate(ev):
            if e["out"] == "ans" and e["pos"] in ("", "inname", "intrivia"):
                c = copy.deepcopy(ev)
                c[k]["out"] = "default"
                c[k]["tag"] = 0
                out.append(("SELFTEST:lost_reply:%s" % i, c))
                break
        # (c) the server claimed dead in the middle of a session that went on
        if len(ev) > 2 and all(e["out"] != "dead" for e in ev):
            c = copy.deepcopy(ev)
            c[len(ev) // 2]["out"] = "dead"
            out.append(("SELFTEST:phantom_death:%s" % i, c))
        if len(out) >= 6:
            break
    return out


# ----------------------------------------------------------------------------------------------
# the pipeline
# ----------------------------------------------------------------------------------------------

def judge(prop, tier):
    rep = Report(prop, tier, "model_checking")
    rng = random.Random(seed())
    quick = tier == "quick"
    ensure_harness()
    ls = ensure_ls()
    T = Texts()
    t_start = time.time()

    # (b) TLC: the intended design must satisfy its properties; its histories are collected
    cfg = "MC_Lsp.cfg" if quick else "MC_Lsp_Thorough.cfg"

    def tlc(job):
        name, c, w = job
        return run_tlc("MC_Lsp", c, workers=w, timeout=1500, xmx="6g" if w > 2 else "2g", job="p7-" + name)
    mc, live, asb, race = parallel(tlc, [("mc", cfg, 6), ("live", "MC_Lsp_Live.cfg", 2),
                                         ("asbuilt", "MC_Lsp_AsBuilt.cfg", 1), ("race", "MC_Lsp_Race.cfg", 1)])
    if not mc.ok:
        log(mc.raw[-4000:])
        raise ToolError("TLC on %s did not pass (%s %s): the intended design of Lsp.tla must satisfy its properties"
                        % (cfg, mc.violated, mc.error))
    hists = [h for h in mc.payload("HIST") if h]
    if not live.ok:
        log(live.raw[-4000:])
        raise ToolError("TLC on MC_Lsp_Live.cfg did not pass (%s %s)" % (live.violated, live.error))
    death = [x for x in asb.payload("DEATH") if x]
    if asb.violated != "ServerAlive" or not death:
        raise ToolError("the as-built model (AsBuilt={PositionUnwrap}) no longer yields the ServerAlive counterexample")
    log("TLC: %s %d states / %d histories in %.1fs; liveness %.1fs; as-built counterexample of %d messages in %.1fs" % (
        cfg, mc.distinct, len(hists), mc.wall, live.wall, len(death[0]["hist"]), asb.wall))

    # (c) sessions
    sessions = []
    per_hist = 2 if quick else 1
    hs = hists if quick or len(hists) <= 30000 else rng.sample(hists, 30000)
    for n, h in enumerate(hs):
        for k in range(per_hist):
            sessions.append(instantiate(h, rng, T, "tlc:%d:%d" % (n, k)))
    # the as-built counterexample, concretely (every edge class, every positional kind)
    cex = death[0]["hist"]
    for k in range(12):
        sessions.append(instantiate(cex, rng, T, "cex:%d" % k))
    sessions += sweep_sessions(T, POSITIONAL, 3 if quick else 1)
    sessions += sweepall_sessions()
    nrand = 300 if quick else 1500
    for k in range(nrand):
        sessions.append(random_session(rng, T, "rand:%d" % k, 0.12 if k % 3 else 0.0))
    for s in sessions:
        annotate(s, T)
    by_id = {s["id"]: s for s in sessions}
    log("%d sessions (%d from TLC histories, %d sweeps, %d random), %d distinct texts" % (
        len(sessions), len(hs) * per_hist + 12, sum(s["origin"] == "sweep" for s in sessions), nrand, len(T.texts) - 1))

    refs = Refs(T)
    t0 = time.time()
    recA = run_inproc(sessions, "main")
    refs.need_exports([st["tid"] for s in sessions for st in s["steps"]])
    refs.need_fresh(fresh_pairs(sessions, T))
    t_inproc = time.time() - t0
    log("in-process replay of %d sessions + %d fresh-server references in %.1fs" % (len(sessions), refs.fresh_runs, t_inproc))

    J = Judge(T, refs)
    events = {}
    for s in sessions:
        events[s["id"]] = J.session(s, recA[s["id"]])
    defref_checked = J.defref_round()

    # stdio sample: TLC histories, the counterexample, sweeps over edge classes, random sessions
    nstd = 100 if quick else 1000
    pools = {o: [s for s in sessions if s["origin"] == o] for o in ("tlc", "sweep", "random", "sweepall")}
    sample = [by_id["cex:%d" % k] for k in range(3)] + pools["sweepall"]
    sample += rng.sample(pools["tlc"], min(len(pools["tlc"]), nstd * 5 // 10))
    sample += rng.sample(pools["sweep"], min(len(pools["sweep"]), nstd * 2 // 10))
    sample += rng.sample(pools["random"], min(len(pools["random"]), nstd * 3 // 10))
    t0 = time.time()
    pacing_counts = {}
    mode_mismatch = []
    stdio_deaths = 0
    for pacing in PACINGS:
        recB = run_stdio(ls, sample, pacing, "main")
        pacing_counts[pacing] = len(recB)
        for s in sample:
            rb = recB.get(s["id"])
            if rb is None:
                raise ToolError("stdio run lost session %s" % s["id"])
            J.session(s, rb)
            stdio_deaths += bool(rb.get("died"))
            # the two delivery modes must tell the same story up to the death
            ra = recA[s["id"]]
            for x, y in zip(ra["results"], rb["results"]):
                # after a thread panic the outcome is a race (default reply or death): not compared
                if x.get("dead") or y.get("dead") or x.get("thread_panics"):
                    break
                if canon(x.get("result")) != canon(y.get("result")):
                    mode_mismatch.append({"session": s["id"], "pacing": pacing, "step": x["i"]})
                    break
            if bool(J.thread_panics_of(ra)) != bool(J.thread_panics_of(rb)):
                mode_mismatch.append({"session": s["id"], "pacing": pacing, "step": "analyzer thread panic in one mode only"})
    J.defref_round()
    t_stdio = time.time() - t0
    log("stdio replay of %d sessions x %d pacings in %.1fs" % (len(sample), len(PACINGS), t_stdio))

    # slow documents (the server's main thread waits seconds for the analyzer thread): long time-outs
    global _TIMEOUT_MS, _PER_SHARD
    t0 = time.time()
    slow_n, slow_dt = calibrate_slow()
    slow = [annotate(x, T) for x in slow_sessions(slow_n)]
    saved = (_TIMEOUT_MS, _PER_SHARD)
    _TIMEOUT_MS, _PER_SHARD = "600000", 1
    try:
        recS = run_inproc(slow, "slow")
        refs.need_exports([st["tid"] for x in slow for st in x["steps"]])
        refs.need_fresh(fresh_pairs(slow, T))
        for x in slow:
            by_id[x["id"]] = x
            events[x["id"]] = J.session(x, recS[x["id"]])
        recT = run_stdio(ls, slow, "lockstep", "slow")
        for x in slow:
            if recT.get(x["id"]) is None:
                raise ToolError("stdio run lost session %s" % x["id"])
            J.session(x, recT[x["id"]])
        J.defref_round()
    finally:
        _TIMEOUT_MS, _PER_SHARD = saved
    t_slow = time.time() - t0
    log("slow-document sessions: chain of %d rules, open() took %.1fs at calibration; stage %.1fs" % (slow_n, slow_dt, t_slow))

    # impl -> spec: trace validation of the recorded in-process runs
    tv_ids = [s["id"] for s in pools["random"]] + [s["id"] for s in sessions if s["id"].startswith("cex:")]
    tv_ids += [s["id"] for s in rng.sample(pools["tlc"], min(len(pools["tlc"]), 400 if quick else 3000))]
    tv_ids += [s["id"] for s in rng.sample(pools["sweep"], min(len(pools["sweep"]), 200 if quick else 2000))]
    items = [(i, events[i]) for i in tv_ids]
    good = [(i, ev) for i, ev in items if i.startswith("rand:") and len(ev) >= 8
            and all(e["out"] in ("pub", "ans", "closed") and (e["out"] == "closed" or e["tag"]) for e in ev)]
    selftests = corrupt_traces(good)
    t0 = time.time()
    verdict, tstats = validate_traces(items + selftests, "main", 8)
    t_trace = time.time() - t0
    st_rejected = [i for i, _ in selftests if verdict.get(i) == "rejected"]
    if not selftests or len(st_rejected) != len(selftests):
        raise ToolError("binding self-test failed: corrupted recordings accepted by the trace validation: %r" % (
            [i for i, _ in selftests if verdict.get(i) != "rejected"] or "no corruptible session"))
    vcount = {"intended": 0, "asbuilt": 0, "rejected": 0}
    drift = []
    flagged = {v[2] for v in J.viol}
    for i, _ in items:
        v = verdict.get(i, "rejected")
        vcount[v] += 1
        if v == "rejected":
            drift.append(i)
    # a rejected recording whose session also broke the contract is explained by that violation;
    # the remaining ones are model drift
    modelled = ("position_past_line_end", "position_mid_surrogate")
    flagged_unmodelled = {v[2] for v in J.viol if not any(m in v[0] for m in modelled)} | J.unmodelled
    pure_drift = [i for i in drift if i not in flagged]
    drift_unmodelled_cause = [i for i in drift if i in flagged_unmodelled]
    log("trace validation of %d recorded sessions in %.1fs: %r; %d self-test corruptions rejected" % (
        len(items), t_trace, vcount, len(st_rejected)))

    # (d) violations: a few witnesses per key
    per_key = {}
    for key, desc, sid, mode, pacing in J.viol:
        per_key.setdefault(key, []).append((desc, sid, mode, pacing))
    # causes outside the pre-registered family first (Report.finish writes the first few witnesses only)
    # one witness per cause family first (Report.finish prints the first few witnesses only), the
    # pre-registered family last
    def family(k):
        return ":".join(k.split(":")[:3])
    order = sorted(per_key, key=lambda k: ("position_past_line_end" in k, k.count(":"), k))
    done = set()
    first = [k for k in order if not (family(k) in done or done.add(family(k)))]
    for key in first + [k for k in order if k not in first]:
        for desc, sid, mode, pacing in per_key[key][:1]:
            s = by_id[sid]
            rep.violation(key, desc, {"property": prop, "key": key, "mode": mode, "pacing": pacing,
                                      "session": strip(s), "how": "./check C20 --replay <this file>"})

    op_counts = {}
    for s in sessions:
        for st in s["steps"]:
            op_counts[st["op"]] = op_counts.get(st["op"], 0) + 1
    class_counts = {}
    for s in sessions:
        for st in s["steps"]:
            if st.get("pc"):
                class_counts[st["pc"]] = class_counts.get(st["pc"], 0) + 1
    distinct = {json.dumps(strip(s)["steps"], sort_keys=True) for s in sessions if nontrivial(s)}
    samples = [strip(by_id[i]) for i in ("cex:0", "tlc:0:0", "rand:0") if i in by_id]
    samples.append(strip(pools["sweep"][len(pools["sweep"]) // 2]))
    rep.coverage = {
        "states": mc.distinct + live.distinct + asb.distinct + race.distinct + tstats["states"],
        "transitions": mc.generated + live.generated + asb.generated + race.generated + tstats["transitions"],
        "model": {"cfg": cfg, "states": mc.distinct, "transitions": mc.generated, "depth": mc.depth, "histories": len(hists),
                  "wall_s": round(mc.wall, 1), "liveness_states": live.distinct,
                  "as_built_counterexample": {"violates": asb.violated, "history": cex, "states": asb.distinct},
                  "race_counterexample": {"violates": race.violated,
                                          "history": (race.payload("DEATH") or [{}])[0].get("hist")}},
        "traces_validated_against_impl": vcount["intended"] + vcount["asbuilt"],
        "trace_validation": dict(vcount, submitted=len(items), states=tstats["states"], wall_s=round(t_trace, 1),
                                 meaning="intended = accepted by Lsp.tla with AsBuilt={}; asbuilt = accepted only with the "
                                         "named deviation PositionUnwrap; rejected = explained by neither"),
        "samples": samples,
        "evaluations": len(sessions) + len(sample) * len(PACINGS),
        "distinct_nontrivial": len(distinct),
        "rule": "sessions = every TLC history of length H instantiated with pool texts and positions of the required "
                "class (x%d), the as-built counterexample (x12), open/request/request sweeps over every UTF-16 position "
                "of every pool text%s, seeded random legal sessions of length 10-40; distinct = different concrete step "
                "lists; non-trivial = has a request after a change of the same run, or a request at a line end, in the "
                "line terminator, past the line end, past the last line or inside a surrogate pair" % (
                    per_hist, "" if not quick else " (every 3rd in-line position, every edge position)"),
        "bounds": {"H": 4 if quick else 5, "documents": 2, "model_texts": 2 if quick else 3, "pool_texts": len(POOL),
                   "distinct_texts": len(T.texts) - 1, "random_session_length": [10, 40], "max_in_flight": 2},
        "exhaustive": False,
        "sessions_in_process": len(sessions), "sessions_stdio": len(sample), "stdio_pacing_counts": pacing_counts,
        "stdio_deaths": stdio_deaths, "fresh_server_references": refs.fresh_runs, "defref_cross_checks": defref_checked,
        "slow_documents": {"chain_rules": slow_n, "open_seconds_at_calibration": round(slow_dt, 1), "sessions": len(slow),
                           "modes": ["in_process", "stdio lockstep"], "stage_s": round(t_slow, 1),
                           "meaning": "documents whose analysis takes seconds, so that every request really waits for "
                                      "the analyzer thread; the chain length is calibrated at run time"},
        "op_counts": op_counts, "position_class_counts": class_counts,
        "model_drift": {"rejected_recordings_without_contract_violation": len(pure_drift), "examples": pure_drift[:5],
                        "rejected_recordings_with_a_violation_of_an_unmodelled_cause": len(drift_unmodelled_cause),
                        "rejected_recordings_with_a_violation_of_a_modelled_cause":
                            len(drift) - len(pure_drift) - len(drift_unmodelled_cause),
                        "examples_modelled_cause": [i for i in drift if i in flagged and i not in flagged_unmodelled][:5],
                        "stdio_vs_in_process_differences": len(mode_mismatch), "mode_examples": mode_mismatch[:5]},
        "binding_selftest": {"corrupted_recordings": len(selftests), "rejected": len(st_rejected),
                             "kinds": sorted({i.split(":")[1] for i, _ in selftests})},
        "violation_counts": J.counts,
        "notes": J.notes,
        "clamp_equivalence_examples": J.clamp_examples,
        "wall": {"tlc_model_s": round(mc.wall + live.wall + asb.wall + race.wall, 1), "in_process_s": round(t_inproc, 1),
                 "stdio_s": round(t_stdio, 1), "trace_validation_s": round(t_trace, 1),
                 "total_after_build_s": round(time.time() - t_start, 1)},
    }
    rep.assumptions = [
        "the command-line check's diagnostics are taken from probe export-texts (same Parser + SemanticPass calls as llw -c)",
        "byte span -> UTF-16 position conversion of the oracle is done in Python, lines split at \\n only (texts with a "
        "lone \\r are not in the pool)",
        "a reply is tagged with the text it belongs to by comparing it with the reply of a fresh server (same code) to the "
        "same request on that text; correctness of the content is judged only as far as the contract states it",
        "over stdio the step at which the process died is known only up to the next step that needs a reply",
        "protocol-illegal histories (request on a closed document, second open) are outside the quantifier",
        "TLC and the CommunityModules Json reader are trusted",
    ]
    return rep


def replay(prop, path):
    with open(path) as fh:
        r = json.load(fh)
    ensure_harness()
    T = Texts()
    s = annotate(dict(r["session"], origin="replay"), T)
    refs = Refs(T)
    refs.need_exports([st["tid"] for st in s["steps"]])
    refs.need_fresh(fresh_pairs([s], T))
    J = Judge(T, refs)
    if r.get("mode") == "stdio":
        ls = ensure_ls()
        rec = run_stdio(ls, [s], r.get("pacing") or "lockstep", "replay")[s["id"]]
    else:
        rec = run_inproc([s], "replay")[s["id"]]
    J.session(s, rec)
    J.defref_round()
    for st, res in zip(s["steps"], rec["results"]):
        print(json.dumps({"step": strip_step(st), "outcome": {k: v for k, v in res.items() if k not in ("i", "op")}},
                         ensure_ascii=False)[:1500])
    print(json.dumps({"died": rec.get("died"), "hang": rec.get("hang")}))
    for key, desc, *_ in J.viol:
        print("VIOLATED %s\n  %s" % (key, desc[:1500]))
    return 1 if J.viol else 0
