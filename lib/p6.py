"""Pipeline P6 — command line (C19: the tool writes only what it promises).

spec -> impl   TLC explores spec/MC_Cli.tla (intended design of spec/Cli.tla: every initial
               directory x every flag combination x histories of two invocations) and prints
               every transition as a "TR|{h, pre, fl, res, post}" line.  Each one is replayed
               with the REAL `llw` binary (built from common.REPO's working tree) in a fresh
               scratch directory laid out as the abstract pre-state says, with several concrete
               grammar texts per verdict class; names + bytes + mtimes are snapshotted before and
               after every invocation.  Process creation is the bottleneck here (~100 exec/s in
               total), so the bulk runs through lelwel::compile in a driver process
               (p6_driver.rs) and a covering subset (binary_subset) through the binary as
               well; the two routes must agree.
impl -> spec   every recorded real transition (abstract pre-state by projection of the real
               snapshot, flags, observed {exit, files written, error reported}, projected
               post-state) is written as ndjson and judged by TLC with spec/Trace_Cli.tla against
               the contract clauses of Cli.tla ("BAD|" lines).  TLC is the judge of record; the
               same clauses are evaluated in Python only as a cross-check of the plumbing.
alarm          only a contract clause failing on REAL behaviour.  A difference between the real
               result and the machine of Cli.tla with the contract intact is MODEL-DRIFT
               (counted in the evidence, exit 0).
"""
import collections
import copy
import hashlib
import random
import stat

from common import *

PROP = "C19"
NOBODY = 65534
OLD_NS = 1_000_000_000 * 10**9          # mtime given to every file before an invocation (2001)

USER_LEXER = b"// HAND-EDITED lexer.rs -- verif marker, must stay byte-for-byte\npub fn my_lexer() {}\n"
USER_PARSER = b"// HAND-EDITED parser.rs -- verif marker, must stay byte-for-byte\npub fn my_parser() {}\n"
STALE_GEN = b"// STALE generated.rs -- verif marker of an earlier unrelated run\n"
STALE_GV = b"// STALE parser.gv -- verif marker of an earlier unrelated run\n"
BYSTANDER = b"bystander file, nobody may touch it\n"

CLAUSES = ["CheckWritesNothing", "GeneratedOnlyIfNoError", "SkeletonsOnlyIfNeither",
           "UserFilesUntouched", "ExitIffNoError", "OnlyPromisedFiles"]
FRIENDLY = {"gv": "graph", "genOut": "generated", "genCwd": "generated", "lexer": "lexer",
            "parser": "parser", "grammar": "grammar", "other": "other"}

# ----------------------------------------------------------------------------------------------
# concrete grammar texts per abstract verdict class (label = expected class, checked by calibration)
# ----------------------------------------------------------------------------------------------

POOL = [
    # accepted: plain, parts + predicates, ordered choice, Pratt, node marker/creation, skip/right,
    # semantic action, binding/elision
    ("a_plain", "accepted", "token A B; start s; s: A B;"),
    ("a_parts_pred", "accepted", "token A B C; start s; part p; s: A (?1 B | B C) ; p: C*;"),
    ("a_ordered", "accepted", "token A B C; start s; s: (A B / A C);"),
    ("a_pratt", "accepted", "token Num Plus='+' Star='*' LPar='(' RPar=')'; start s; s: e; "
                            "e: e '*' e | e '+' e | '(' e ')' | Num;"),
    ("a_nodes", "accepted", "token A B C; start s; s: t*; t: A <1 B 1>pair | C;"),
    ("a_skip_right", "accepted", "token A='a' B='b' Ws; skip Ws; right '^'; token Pow='^'; start s; "
                                 "s: e; e: e '^' e | A | B;"),
    ("a_action", "accepted", "token A B; start s; s: t B; t: A @x;"),
    ("a_elide", "accepted", "token A B C; start s; s: A t; t^: B | C;"),
    # warnings only
    ("w_unused_token", "warn", "token A B C; start s; s: A B;"),
    ("w_unused_rule", "warn", "token A B; start s; s: A B; t: A;"),
    ("w_ordered", "warn", "token A B; start s; s: (A / B);"),
    ("w_marker", "warn", "token A B C; start s; s: <1 A B;"),
    ("w_commit", "warn", "token A B; start s; s: A ~ B;"),
    ("w_part_token", "warn", "token A B; start s; part p; s: A; p: B;"),
    ("w_unused_elided", "warn", "token A B; start s; s: A B; t^: A;"),
    # syntax errors (diagnostics of the parser: no error code)
    ("s_paren", "synerr", "token A B; start s; s: (A;"),
    ("s_token_decl", "synerr", "token A B start s; s: A B;"),
    ("s_empty_alt", "synerr", "token A B; start s; s: A | ;"),
    ("s_symbol", "synerr", "token A=; start s; s: A;"),
    ("s_garbage", "synerr", "token A; start s; s: A; $$$"),
    ("s_no_semi", "synerr", "token A B; start s; s: A B"),
    # semantic errors (coded)
    # an error followed by a warning, and the other way round (the exit status must not depend on
    # which diagnostic happens to be the last one)
    ("e_error_then_warning", "semerr", "token A B Unused; start s; s: (A | A) B;"),
    ("e_warning_then_error", "semerr", "token A B; start s; s: t B; t: ; u: A | A;"),
    ("e_undef_rule", "semerr", "token A B; start s; s: A t;"),
    ("e_ll1_alt", "semerr", "token A B; start s; s: A B | A;"),
    ("e_no_start", "semerr", "token A B; s: A B;"),
    ("e_ll1_opt", "semerr", "token A B; start s; s: [A] A B;"),
    ("e_undef_token", "semerr", "token A B C; start s; s: e; e: e '+' e | A;"),
    ("e_lowercase", "semerr", "token a; start s; s: a;"),
    ("e_redef", "semerr", "token A; start s; s: A; s: A;"),
    ("e_ll1_rep", "semerr", "token A B; start s; s: A* A B;"),
    # unreadable input (the text field names the variant)
    ("u_missing", "unreadable", "missing"),
    ("u_directory", "unreadable", "directory"),
    ("u_not_utf8", "unreadable", "not_utf8"),
]
QUICK_PER_CLASS = 4
EXAMPLE_FILES = ["examples/json/src/json.llw", "examples/calc/src/calc.llw", "examples/toml/src/toml.llw"]

ERR_RE = re.compile(r"(?m)(^|: )error(\[E\d{3}\])?: ")
ERR_CODED_RE = re.compile(r"(?m)(^|: )error\[E\d{3}\]: ")
ERR_UNCODED_RE = re.compile(r"(?m)(^|: )error: ")
WARN_RE = re.compile(r"(?m)(^|: )warning(\[W\d{3}\])?: ")


def observed_class(stderr):
    if ERR_UNCODED_RE.search(stderr):
        return "synerr"
    if ERR_CODED_RE.search(stderr):
        return "semerr"
    if WARN_RE.search(stderr):
        return "warn"
    return "accepted"


# ----------------------------------------------------------------------------------------------
# the real binary
# ----------------------------------------------------------------------------------------------

_llw = None
_drv = None


def llw_target_dir():
    if os.path.realpath(REPO) == "/repo":
        return os.path.join(BUILD, "llw-target")
    return os.path.join(BUILD, "llw-target-" + hashlib.sha256(os.path.realpath(REPO).encode()).hexdigest()[:8])


def build_llw():
    """cargo build of llw (and of the in-process driver, lib/p6_driver.rs) from common.REPO's
    current working tree; copies of the binaries are used."""
    global _llw, _drv
    if _llw:
        return _llw
    tdir = llw_target_dir()
    env = dict(os.environ, CARGO_TARGET_DIR=tdir, CARGO_NET_OFFLINE="true")
    env.pop("RUSTFLAGS", None)
    t0 = time.time()
    r = subprocess.run(["cargo", "build", "--offline", "--features", "cli", "--bin", "llw"], cwd=REPO,
                       env=env, stdout=subprocess.PIPE, stderr=subprocess.STDOUT, text=True)
    if r.returncode != 0:
        sys.stderr.write(r.stdout[-6000:])
        raise ToolError("cargo build of llw failed in %s" % REPO)
    # the driver: a generated one-file package with a path dependency on REPO, same target directory
    pk = os.path.join(tdir, "p6drv-pkg")
    os.makedirs(os.path.join(pk, "src"), exist_ok=True)
    toml = ('[package]\nname = "p6drv"\nversion = "0.1.0"\nedition = "2024"\n\n[workspace]\n\n'
            '[dependencies]\nlelwel = { path = "%s", features = ["cli"] }\n' % os.path.realpath(REPO))
    for p, txt in ((os.path.join(pk, "Cargo.toml"), toml),
                   (os.path.join(pk, "src", "main.rs"), open(os.path.join(VERIF, "lib", "p6_driver.rs")).read())):
        if not os.path.exists(p) or open(p).read() != txt:
            with open(p, "w") as fh:
                fh.write(txt)
    if not os.path.exists(os.path.join(pk, "Cargo.lock")):
        shutil.copy(os.path.join(REPO, "Cargo.lock"), os.path.join(pk, "Cargo.lock"))
    r = subprocess.run(["cargo", "build", "--offline"], cwd=pk, env=env, stdout=subprocess.PIPE,
                       stderr=subprocess.STDOUT, text=True)
    if r.returncode != 0:
        sys.stderr.write(r.stdout[-6000:])
        raise ToolError("cargo build of the in-process driver failed")
    d = cache_dir("p6", "bin")
    outs = []
    for name in ("llw", "p6drv"):
        dst = os.path.join(d, name)
        tmp = dst + ".%d" % os.getpid()
        shutil.copy2(os.path.join(tdir, "debug", name), tmp)
        os.chmod(tmp, 0o755)
        os.replace(tmp, dst)
        outs.append(dst)
    log("llw and driver built from %s in %.1fs" % (REPO, time.time() - t0))
    _llw, _drv = outs
    return _llw


RUN_ENV = {"NO_COLOR": "1", "TERM": "dumb", "RUST_BACKTRACE": "0", "PATH": "/usr/bin:/bin", "LC_ALL": "C"}


def run_llw(args, cwd, as_nobody=False, timeout=60):
    kw = {}
    if as_nobody:
        kw = {"user": NOBODY, "group": NOBODY, "extra_groups": []}
    r = subprocess.run([_llw] + args, cwd=cwd, env=RUN_ENV, stdin=subprocess.DEVNULL,
                       stdout=subprocess.DEVNULL, stderr=subprocess.PIPE, timeout=timeout, **kw)
    return r.returncode, r.stderr.decode("utf-8", "replace")


_drivers = {}        # per worker process: as_nobody -> Popen of the in-process driver


def driver(as_nobody):
    p = _drivers.get(as_nobody)
    if p is None or p.poll() is not None:
        kw = {"user": NOBODY, "group": NOBODY, "extra_groups": []} if as_nobody else {}
        p = subprocess.Popen([_drv], cwd="/", env=RUN_ENV, stdin=subprocess.PIPE, stdout=subprocess.DEVNULL,
                             stderr=subprocess.PIPE, **kw)
        _drivers[as_nobody] = p
    return p


def run_compile(fl, L):
    """The same invocation through lelwel::compile in the driver process (see p6_driver.rs)."""
    p = driver(L["nobody"])
    line = "\t".join([L["cwd"], L["input"], L["outarg"] if fl["out"] else ".", str(int(fl["check"])),
                      str(int(fl["format"])), str(fl["verbose"]), str(int(fl["graph"])), str(int(fl["short"]))])
    p.stdin.write(line.encode() + b"\n")
    p.stdin.flush()
    out = []
    while True:
        l = p.stderr.readline()
        if not l:
            p.wait()
            _drivers.pop(L["nobody"], None)
            return -abs(p.returncode or 1), b"".join(out).decode("utf-8", "replace") + "\n[driver process died]"
        if l.startswith(b"@@END "):
            code = int(l[6:])
            break
        out.append(l)
    if code >= 250:
        raise ToolError("driver protocol error %d for %s" % (code, line))
    return code, b"".join(out).decode("utf-8", "replace")


# ----------------------------------------------------------------------------------------------
# calibration of the concrete grammars: observed class, formatted variant
# ----------------------------------------------------------------------------------------------

def calibrate(tier):
    """Returns (pools by class, notes).  A grammar is dropped when the real front end does not put
    it into the class it was written for (the abstraction would be wrong, not lelwel)."""
    d = cache_dir("p6", "calibrate-%d" % os.getpid())
    entries = list(POOL)
    if tier == "thorough":
        for f in EXAMPLE_FILES:
            p = os.path.join(REPO, f)
            if os.path.exists(p):
                with open(p) as fh:
                    entries.append(("x_" + os.path.basename(f)[:-4], None, fh.read()))
    pools = collections.defaultdict(list)
    notes = {"dropped": [], "format_panics": [], "format_not_idempotent": []}
    for name, label, text in entries:
        if label == "unreadable":
            pools[label].append({"name": name, "cls": label, "variant": text, "raw": None, "fmt": None})
            continue
        gd = os.path.join(d, name)
        os.makedirs(gd, exist_ok=True)
        with open(os.path.join(gd, "x.llw"), "w") as fh:
            fh.write(text)
        code, err = run_llw(["-c", "-s", "x.llw"], gd)
        cls = observed_class(err)
        if "panicked at" in err or (label is not None and cls != label) or \
                (label is None and cls not in ("accepted", "warn")):
            notes["dropped"].append({"grammar": name, "label": label, "observed": cls, "exit": code,
                                     "stderr": err[:300]})
            continue
        fmt = None
        with open(os.path.join(gd, "f.llw"), "w") as fh:
            fh.write(text)
        code, err = run_llw(["-f", "f.llw"], gd)
        if code == 0:
            with open(os.path.join(gd, "f.llw")) as fh:
                fmt = fh.read()
            # "formatted" is a fact about the text (formatting it again leaves it as it is), not about
            # what the tool under test says in check mode
            run_llw(["-f", "f.llw"], gd)
            with open(os.path.join(gd, "f.llw")) as fh:
                again = fh.read()
            _, err3 = run_llw(["-c", "-s", "f.llw"], gd)
            if again != fmt:
                notes["format_not_idempotent"].append(name)
                fmt = None
            elif observed_class(err3) != cls:
                notes["dropped"].append({"grammar": name, "why": "formatting changes the verdict class"})
                continue
        elif "panicked at" in err:
            notes["format_panics"].append({"grammar": name, "text": text, "exit": code,
                                           "stderr": err.strip().splitlines()[-1][:200] if err.strip() else ""})
        pools[cls].append({"name": name, "cls": cls, "raw": text, "fmt": fmt, "variant": "file"})
    shutil.rmtree(d, ignore_errors=True)
    need = 2 if tier == "quick" else 6
    for cls in ("accepted", "warn", "synerr", "semerr", "unreadable"):
        if tier == "quick":
            pools[cls] = pools[cls][:QUICK_PER_CLASS]
        n = len(pools[cls])
        if n < (min(need, 3) if cls == "unreadable" else need):
            raise ToolError("only %d usable concrete grammars for class %s (dropped: %s)" %
                            (n, cls, notes["dropped"]))
        if cls != "unreadable":
            if not any(g["fmt"] is not None for g in pools[cls]):
                raise ToolError("no formatted variant for class %s" % cls)
            if not any(g["fmt"] != g["raw"] for g in pools[cls]):
                raise ToolError("no unformatted variant for class %s" % cls)
    return pools, notes


# ----------------------------------------------------------------------------------------------
# read-only output directory: find something that really makes File::create fail
# ----------------------------------------------------------------------------------------------

def ro_mechanisms():
    """Each mechanism is tried with the real binary: `llw -o <ro dir>` on an accepted grammar must
    fail to create generated.rs.  chmod 0555 is useless for root, so the invocation then runs as
    uid 65534 on a tree chown'ed to that user."""
    d = cache_dir("p6", "roprobe-%d" % os.getpid())
    ok = []
    for mech in ("chmod", "notdir", "missing"):
        root = os.path.join(d, mech)
        shutil.rmtree(root, ignore_errors=True)
        inst = {"layout": "split", "ro": mech, "path": "rel", "grammar": {"cls": "accepted", "raw": POOL[0][2],
                                                                         "fmt": None, "variant": "file"},
                "use_fmt": False}
        pre = {"gclass": "accepted", "formatted": False, "lexer": "absent", "parser": "absent",
               "genOut": "absent", "genCwd": "absent", "gv": "absent", "outRO": True}
        try:
            L = materialize(root, pre, inst)
            code, err = run_llw(argv_of({"check": False, "format": False, "graph": False, "verbose": 0,
                                         "short": False, "out": True}, L), L["cwd"], as_nobody=L["nobody"])
            created = os.path.exists(os.path.join(L["out"], "generated.rs")) if os.path.isdir(L["out"]) else False
            if code != 0 and not created:
                ok.append(mech)
        except (OSError, subprocess.SubprocessError) as e:
            log("read-only mechanism %s unavailable: %s" % (mech, e))
        finally:
            unprotect(root)
    shutil.rmtree(d, ignore_errors=True)
    return ok


def unprotect(root):
    for dp, dn, fn in os.walk(root):
        try:
            os.chmod(dp, 0o755)
        except OSError:
            pass
    shutil.rmtree(root, ignore_errors=True)


# ----------------------------------------------------------------------------------------------
# abstract state -> directory, directory -> abstract state
# ----------------------------------------------------------------------------------------------

def layout(root, pre, inst):
    """Paths, roles and arguments of the directory tree for the abstract state `pre` (pure)."""
    g = os.path.join(root, "g")
    cwd = g if inst["layout"] == "same" else os.path.join(root, "cwd")
    ro = pre["outRO"]
    mech = inst["ro"] if ro else None
    if mech == "notdir":
        out = os.path.join(root, "blocker", "sub")
    elif mech == "missing":
        out = os.path.join(root, "nowhere")
    else:
        out = os.path.join(root, "out")
    gpath = os.path.join(g, "x.llw")
    if inst["path"] == "abs":
        inp, outarg = gpath, out
    else:
        inp = "x.llw" if cwd == g else "../g/x.llw"
        outarg = os.path.relpath(out, cwd)
    roles = {"g/x.llw": "grammar", "g/lexer.rs": "lexer", "g/parser.rs": "parser",
             os.path.relpath(os.path.join(cwd, "generated.rs"), root): "genCwd",
             os.path.relpath(os.path.join(cwd, "parser.gv"), root): "gv"}
    if mech not in ("notdir", "missing"):
        roles["out/generated.rs"] = "genOut"
    return {"root": root, "g": g, "cwd": cwd, "out": out, "gpath": gpath, "input": inp, "outarg": outarg,
            "roles": roles, "mech": mech, "nobody": mech == "chmod" and os.geteuid() == 0, "ro": ro}


def protect(L):
    """Makes the output directory really read-only for the invocation (see ro_mechanisms)."""
    if L["mech"] == "chmod":
        if L["nobody"]:
            for dp, dn, fn in os.walk(L["root"]):
                os.chown(dp, NOBODY, NOBODY)
                for f in fn:
                    os.chown(os.path.join(dp, f), NOBODY, NOBODY)
        os.chmod(L["out"], 0o555)


def materialize(root, pre, inst):
    """Lays out the directory tree for the abstract state `pre` (an initial state of Cli.tla)."""
    L = layout(root, pre, inst)
    g, cwd, out, gpath, mech = L["g"], L["cwd"], L["out"], L["gpath"], L["mech"]
    os.makedirs(g)
    if cwd != g:
        os.makedirs(cwd)
    files = {}
    if mech == "notdir":
        files[os.path.join(root, "blocker")] = BYSTANDER
    elif mech != "missing":
        os.makedirs(out)
    gr = inst["grammar"]
    if gr["cls"] == "unreadable":
        if gr["variant"] == "directory":
            os.makedirs(gpath)
        elif gr["variant"] == "not_utf8":
            files[gpath] = b"token A;\xff\xfe start s; s: A;\n"
    else:
        files[gpath] = (gr["fmt"] if inst["use_fmt"] else gr["raw"]).encode()
    if pre["lexer"] == "user":
        files[os.path.join(g, "lexer.rs")] = USER_LEXER
    if pre["parser"] == "user":
        files[os.path.join(g, "parser.rs")] = USER_PARSER
    if pre["genCwd"] == "stale":
        files[os.path.join(cwd, "generated.rs")] = STALE_GEN
    if pre["gv"] == "stale":
        files[os.path.join(cwd, "parser.gv")] = STALE_GV
    if pre["genOut"] == "stale":
        files[os.path.join(out, "generated.rs")] = STALE_GEN
    files[os.path.join(g, "keep.txt")] = BYSTANDER
    if cwd != g:
        files[os.path.join(cwd, "keep.txt")] = BYSTANDER
    if os.path.isdir(out):
        files[os.path.join(out, "keep.txt")] = BYSTANDER
    for p, b in files.items():
        with open(p, "wb") as fh:
            fh.write(b)
    protect(L)
    return L


def clone(L, root, pre, inst):
    """A byte-identical copy of a directory tree (the state after the earlier invocations of a history)."""
    shutil.copytree(L["root"], root, symlinks=True)
    L2 = layout(root, pre, inst)
    protect(L2)
    return L2


def argv_of(fl, L):
    a = []
    if fl["check"]:
        a.append("-c")
    if fl["format"]:
        a.append("-f")
    if fl["graph"]:
        a.append("-g")
    if fl["short"]:
        a.append("-s")
    if fl["verbose"]:
        a.append("-" + "v" * fl["verbose"])
    if fl["out"]:
        a += ["-o", L["outarg"]]
    a.append(L["input"])
    return a


def age(root):
    """Every file gets an old mtime, so that ANY write (even of identical bytes) is visible."""
    for dp, dn, fn in os.walk(root):
        for f in fn:
            try:
                os.utime(os.path.join(dp, f), ns=(OLD_NS, OLD_NS))
            except OSError:
                pass


def snapshot(root):
    snap = {}
    for dp, dn, fn in os.walk(root):
        rel = os.path.relpath(dp, root)
        if rel != ".":
            snap[rel] = ("dir",)
        for f in fn:
            p = os.path.join(dp, f)
            st = os.lstat(p)
            if stat.S_ISREG(st.st_mode):
                with open(p, "rb") as fh:
                    b = fh.read()
                snap[os.path.relpath(p, root)] = ("file", b, st.st_mtime_ns, st.st_ino)
            else:
                snap[os.path.relpath(p, root)] = ("special", st.st_mode, st.st_mtime_ns, st.st_ino)
    return snap


def changed_paths(before, after):
    out = []
    for p in sorted(set(before) | set(after)):
        b, a = before.get(p), after.get(p)
        if b == a:
            continue
        if b is None:
            how = "created"
        elif a is None:
            how = "deleted"
        elif b[0] != a[0]:
            how = "retyped"
        elif b[1] != a[1]:
            how = "bytes"
        else:
            how = "rewritten (same bytes)"
        out.append((p, how))
    return out


def project(snap, L, inst):
    """The abstraction function: real directory snapshot -> FsType record of Cli.tla."""
    by_role = {r: snap.get(p) for p, r in L["roles"].items()}

    def user(e, marker):
        if e is None:
            return "absent"
        return "user" if e[0] == "file" and e[1] == marker else "skeleton"

    def outf(e, marker):
        if e is None:
            return "absent"
        return "stale" if e[0] == "file" and e[1] == marker else "fresh"
    gr = inst["grammar"]
    ge = by_role.get("grammar")
    formatted = bool(gr["cls"] != "unreadable" and gr["fmt"] is not None and ge is not None and
                     ge[0] == "file" and ge[1] == gr["fmt"].encode())
    return {"gclass": gr["cls"], "formatted": formatted,
            "lexer": user(by_role.get("lexer"), USER_LEXER), "parser": user(by_role.get("parser"), USER_PARSER),
            "genOut": outf(by_role.get("genOut"), STALE_GEN), "genCwd": outf(by_role.get("genCwd"), STALE_GEN),
            "gv": outf(by_role.get("gv"), STALE_GV), "outRO": L["ro"]}


def listing(snap):
    out = []
    for p in sorted(snap):
        e = snap[p]
        if e[0] == "file":
            out.append("%s (%d bytes, sha %s)" % (p, len(e[1]), hashlib.sha256(e[1]).hexdigest()[:8]))
        else:
            out.append("%s/ [%s]" % (p, e[0]))
    return out


# ----------------------------------------------------------------------------------------------
# the contract clauses in Python (cross-check only; TLC with Trace_Cli.tla is the judge)
# ----------------------------------------------------------------------------------------------

def py_failing(pre, fl, res):
    w = set(res["wrote"])
    bad = []
    if fl["check"] and w:
        bad.append("CheckWritesNothing")
    if (w & {"genOut", "genCwd"}) and pre["gclass"] not in ("accepted", "warn"):
        bad.append("GeneratedOnlyIfNoError")
    if (w & {"lexer", "parser"}) and not (pre["lexer"] == "absent" and pre["parser"] == "absent"):
        bad.append("SkeletonsOnlyIfNeither")
    if (pre["lexer"] != "absent" and "lexer" in w) or (pre["parser"] != "absent" and "parser" in w):
        bad.append("UserFilesUntouched")
    if not fl["format"] and ((res["exit"] == 0) != (not res["err"])):
        bad.append("ExitIffNoError")
    if not fl["check"]:
        if fl["format"]:
            promised = {"grammar"}
        else:
            promised = {"genOut" if fl["out"] else "genCwd", "lexer", "parser"} | ({"gv"} if fl["graph"] else set())
        if not w <= promised:
            bad.append("OnlyPromisedFiles")
    return bad


def flags_str(fl, render=False):
    a = []
    if fl["check"]:
        a.append("c")
    if fl["format"]:
        a.append("f")
    if fl["graph"]:
        a.append("g")
    if fl["out"]:
        a.append("o")
    if render:
        if fl["short"]:
            a.append("s")
        if fl["verbose"]:
            a.append("v" * fl["verbose"])
    return ",".join(a) or "none"


def violation_key(clause, rec):
    pre, fl, res = rec["pre"], rec["fl"], rec["res"]
    w = set(res["wrote"])
    if clause == "CheckWritesNothing":
        what = "+".join(sorted({FRIENDLY[x] for x in w}))
    elif clause == "GeneratedOnlyIfNoError":
        what = "generated"
    elif clause in ("SkeletonsOnlyIfNeither", "UserFilesUntouched"):
        what = "+".join(sorted(w & {"lexer", "parser"})) + "_with_" + \
               ("both" if pre["lexer"] != "absent" and pre["parser"] != "absent" else
                "lexer" if pre["lexer"] != "absent" else "parser" if pre["parser"] != "absent" else "none")
    elif clause == "ExitIffNoError":
        if rec.get("panic"):
            what = "panic"
        else:
            what = "exit%d_%s_error" % (res["exit"], "with" if res["err"] else "without")
    else:
        if fl["format"]:
            promised = {"grammar"}
        else:
            promised = {"genOut" if fl["out"] else "genCwd", "lexer", "parser"} | ({"gv"} if fl["graph"] else set())
        what = "+".join(sorted({FRIENDLY[x] + ("_wrong_dir" if x in ("genOut", "genCwd") else "")
                                for x in w - promised}))
    return "%s:%s:flags=%s:class=%s" % (clause, what, flags_str(fl), pre["gclass"])


# ----------------------------------------------------------------------------------------------
# replay of one TLC transition (with its witness history) into the real binary
# ----------------------------------------------------------------------------------------------

def run_steps(L, steps, inst, k0=0, verbose=False, via="bin"):
    """Runs the invocations `steps` (flag records) in a row in the tree L; one real transition
    record per invocation."""
    root = L["root"]
    recs = []
    for k, fl in enumerate(steps):
        age(root)
        before = snapshot(root)
        args = argv_of(fl, L)
        if via == "bin":
            code, err = run_llw(args, L["cwd"], as_nobody=L["nobody"])
        else:
            code, err = run_compile(fl, L)
        after = snapshot(root)
        ch = changed_paths(before, after)
        wrote = sorted({L["roles"].get(p, "other") for p, how in ch})
        rec = {"pre": project(before, L, inst), "fl": fl,
               "res": {"exit": code, "wrote": wrote, "err": bool(ERR_RE.search(err))},
               "post": project(after, L, inst),
               "panic": "panicked at" in err,
               "via": via, "argv": "llw " + " ".join(args), "cwd": os.path.relpath(L["cwd"], root),
               "changed": ["%s: %s" % c for c in ch], "stderr": err[:400], "k": k0 + k}
        if verbose:
            rec["before"] = listing(before)
            rec["after"] = listing(after)
        recs.append(rec)
    return recs


def run_history(root, init, steps, inst, verbose=False):
    try:
        return run_steps(materialize(root, init, inst), steps, inst, verbose=verbose)
    finally:
        unprotect(root)


def candidates(pools, init, formats):
    """Concrete grammars usable for the abstract state `init` (formats: some invocation formats)."""
    out = []
    for g in pools[init["gclass"]]:
        if g["cls"] == "unreadable":
            out.append((g, False))
        elif init["formatted"]:
            if g["fmt"] is not None:
                out.append((g, True))
        elif g["fmt"] is None:
            # the formatter panics on this text (coverage: calibration.format_panics); usable as an
            # unformatted text where no invocation of the history formats
            if not formats:
                out.append((g, False))
        elif g["fmt"] != g["raw"]:
            out.append((g, False))
    return out


def make_groups(trs, pools, mechs, K0, K1, rng_seed):
    """Work units.  A first-step transition is a unit of its own (K0 instantiations).  The
    second-step transitions that share a witness history (same initial directory, same first
    invocation) form one unit per instantiation (K1): the first invocation is run once, then every
    second invocation runs on a byte-identical copy of the resulting tree (the last one in place)."""
    groups = []
    bykey = collections.OrderedDict()
    for j, tr in enumerate(trs):
        if tr["h"]:
            bykey.setdefault(json.dumps(tr["h"], sort_keys=True), []).append(j)
        else:
            bykey["first:%d" % j] = [j]
    skipped_ro = 0
    for gi, (key, js) in enumerate(bykey.items()):
        tr0 = trs[js[0]]
        init = tr0["h"][0]["pre"] if tr0["h"] else tr0["pre"]
        prefix = [h["fl"] for h in tr0["h"]]
        finals = [(j, trs[j]["fl"]) for j in js]
        if init["outRO"] and not mechs:
            skipped_ro += len(js)
            continue
        rng = random.Random(rng_seed * 1000003 + gi)
        cands = candidates(pools, init, any(f["format"] for f in prefix) or any(f["format"] for _, f in finals))
        rng.shuffle(cands)
        K = K1 if prefix else K0
        for r in range(min(K, len(cands))):
            g, use_fmt = cands[r]
            inst = {"grammar": g, "use_fmt": use_fmt, "layout": rng.choice(("split", "same")),
                    "ro": rng.choice(mechs) if mechs else None, "path": rng.choice(("rel", "rel", "abs"))}
            groups.append({"gid": "%d_%d" % (gi, r), "init": init, "prefix": prefix, "finals": finals, "inst": inst})
    return groups, skipped_ro


_RUNS = None


def binary_subset(dgroups, tier):
    """The work units that are ALSO run with the real llw binary (instantiation 0 of the unit).
    thorough: every first-invocation transition and 12 of the 96 second invocations of every witness
    history.  quick (process creation costs 10..250 ms here, depending
    on the load of the machine): every second cell of the first-invocation table
    (initial directory x check x format x graph x -o) with the two rendering flags (-v/-vv, -s)
    rotating over their 6 values, and one of the 96 second invocations of every witness history."""
    out = []
    combos = {}
    for g in dgroups:
        if not g["gid"].endswith("_0"):
            continue
        finals = g["finals"]
        if tier != "quick":
            if g["prefix"]:
                gi = int(g["gid"].split("_")[0])
                finals = [f for n, f in enumerate(finals) if n % 8 == gi % 8]
        else:
            if not g["prefix"]:
                fl = finals[0][1]
                key = json.dumps([g["init"], fl["check"], fl["format"], fl["graph"], fl["out"]], sort_keys=True)
                idx = combos.setdefault(key, len(combos))
                if fl["verbose"] * 2 + int(fl["short"]) != (idx // 2) % 6 or idx % 2:
                    continue
            else:
                gi = int(g["gid"].split("_")[0])
                finals = [f for n, f in enumerate(finals) if n == (gi * 7) % 96]
        out.append(dict(g, gid="b" + g["gid"], finals=finals, via="bin"))
    return out


def _run_batch(grps):
    t = time.time()
    out = [_run_group(g) for g in grps]
    return out, time.time() - t


def _noop(x):
    return x


def make_pool():
    """Worker PROCESSES (the snapshot/projection work is Python and would serialise on the GIL).
    Forked early, while this process is still small; they inherit _llw and _RUNS."""
    import multiprocessing
    from concurrent.futures import ProcessPoolExecutor
    n = max(1, min(12, NCPU - 2))
    pool = ProcessPoolExecutor(max_workers=n, mp_context=multiprocessing.get_context("fork"))
    list(pool.map(_noop, range(4 * n)))
    return pool


def keep_cache_alive():
    """Concurrent checks prune old build/cache/<tree hash> directories by mtime."""
    try:
        os.utime(os.path.join(BUILD, "cache", tree_hash()))
    except OSError:
        pass


def _run_group(grp):
    """Returns [(j or None, record)]: the records of the shared first invocations carry j = None."""
    keep_cache_alive()
    # one parent directory per worker process: mkdir/rmdir in a shared parent serialise
    base = os.path.join(_RUNS, "w%d" % os.getpid(), grp["gid"])
    if os.path.exists(base):
        unprotect(base)
    out = []
    try:
        L = materialize(os.path.join(base, "t"), grp["init"], grp["inst"])
        via = grp.get("via", "bin")
        for rec in run_steps(L, grp["prefix"], grp["inst"], via=via):
            out.append((None, rec))
        n = len(grp["finals"])
        for i, (j, fl) in enumerate(grp["finals"]):
            Lk = L if i == n - 1 else clone(L, os.path.join(base, "c%d" % i), grp["init"], grp["inst"])
            out.append((j, run_steps(Lk, [fl], grp["inst"], k0=len(grp["prefix"]), via=via)[0]))
            if Lk is not L:
                unprotect(Lk["root"])
    finally:
        unprotect(base)
    return out


# ----------------------------------------------------------------------------------------------
# judge
# ----------------------------------------------------------------------------------------------

def trace_record(rec, rid):
    return {"id": rid, "pre": rec["pre"], "fl": rec["fl"], "res": rec["res"], "post": rec["post"]}


def tlc_judge(records, tag, tier):
    """TLC (Trace_Cli.tla) judges the real transitions; returns (set of (id, clause), drift dict)."""
    d = cache_dir("p6", "trace")
    shard = 12000
    jobs = []
    for k in range(0, len(records), shard):
        p = os.path.join(d, "trace-%s-%d-%d.ndjson" % (tag, os.getpid(), k // shard))
        write_ndjson(p, records[k:k + shard])
        jobs.append((k // shard, p))

    def run(job):
        k, p = job
        return run_tlc("Trace_Cli", "Trace_Cli.cfg", env={"TRACE": p}, workers=1,
                       timeout=1800 if tier == "thorough" else 600, job="p6-trace-%s-%d-%d" % (tag, os.getpid(), k))
    results = parallel(run, jobs, jobs=min(6, max(1, NCPU // 2)))
    bad, drift = set(), {}
    for (k, p), r in zip(jobs, results):
        if not r.ok:
            log(r.raw[-3000:])
            raise ToolError("TLC trace judge failed on %s: %s" % (p, r.error or r.violated))
        if r.distinct != len(read_ndjson(p)):
            raise ToolError("TLC trace judge looked at %d of %d records of %s" % (r.distinct, len(read_ndjson(p)), p))
        for b in r.payload("BAD"):
            bad.add((b["id"], b["clause"]))
        for x in r.payload("DRIFT"):
            drift[x["id"]] = x
        os.remove(p)
    return bad, drift, sum(r.distinct for r in results), max(r.wall for r in results)


SPEC_MUTANTS = {
    "SkeletonIfEither": ("PSkeletonsOnlyIfNeither", "PUserFilesUntouched"),
    "GenerateOnError": ("PGeneratedOnlyIfNoError", "FreshOnlyIfNoError"),
    "ExitIgnoresErrors": ("PExitIffNoError",),
}


def spec_side_checks():
    """The as-built model must exhibit finding #6; every clause must be able to fail in the spec."""
    out = {}
    r = run_tlc("MC_Cli", "MC_Cli_AsBuilt.cfg", workers=1, timeout=600, job="p6-asbuilt-%d" % os.getpid())
    out["asbuilt_GraphInCheck"] = {"violated": r.violated, "states": r.distinct}
    if r.violated != "PCheckWritesNothing":
        log(r.raw[-2000:])
        raise ToolError("as-built model (GraphInCheck) does not violate PCheckWritesNothing: %s" % (r.violated or r.error))
    for sw, expect in SPEC_MUTANTS.items():
        r = run_tlc("MC_Cli", "MC_Cli_Mutant.cfg", env={"CLI_SWITCH": sw}, workers=1, timeout=600,
                    job="p6-mutant-%s-%d" % (sw, os.getpid()))
        out["mutant_" + sw] = {"violated": r.violated}
        if r.violated not in expect:
            log(r.raw[-2000:])
            raise ToolError("spec mutant %s is not rejected by %s: %s" % (sw, expect, r.violated or r.error))
    return out


def judge(prop, tier):
    global _RUNS
    rep = Report(prop, tier, "model_checking")
    build_llw()
    t0 = time.time()
    _RUNS = cache_dir("p6", "runs-%s-%d" % (tier, os.getpid()))
    pool = make_pool()
    # (b) the model: intended design, exhaustive
    mc = run_tlc("MC_Cli", "MC_Cli.cfg", env={"CLI_EMIT": "1"}, workers=1, timeout=900, job="p6-mc-%d" % os.getpid())
    if not mc.ok:
        log(mc.raw[-3000:])
        raise ToolError("TLC rejects the intended design of Cli.tla: %s" % (mc.violated or mc.error))
    trs = mc.payload("TR")
    if not trs or any(t is None for t in trs) or len(trs) != mc.generated - sum(1 for t in trs if not t["h"]) // 96:
        # generated = initial states + transitions; initial states = first-step transitions / |Flags|
        raise ToolError("TR lines (%d) do not match TLC's generated states (%d)" % (len(trs), mc.generated))
    log("MC_Cli: %d distinct states, %d transitions, %.1fs" % (mc.distinct, len(trs), mc.wall))
    from concurrent.futures import ThreadPoolExecutor as TPE
    side_pool = TPE(max_workers=1)
    side = side_pool.submit(spec_side_checks)

    # (e) concrete instantiations
    pools, cal_notes = calibrate(tier)
    mechs = ro_mechanisms()
    if tier == "quick":
        mechs = mechs[:1]
    K0, K1 = (1, 1) if tier == "quick" else (6, 3)
    dgroups, skipped_ro = make_groups(trs, pools, mechs, K0, K1, seed())
    for g in dgroups:
        g["via"] = "drv"
    bgroups = binary_subset(dgroups, tier)
    groups = bgroups + dgroups
    # (c) replay.  Tasks: one per long unit, batches of 16 single-invocation units; the binary's tasks
    # are spread evenly among the driver's (process creation does not scale with the number of workers)
    t1 = time.time()

    def tasks_of(idxs):
        long_ = [[i] for i in idxs if groups[i]["prefix"]]
        single = [i for i in idxs if not groups[i]["prefix"]]
        return long_ + [single[k:k + 16] for k in range(0, len(single), 16)]
    bt = tasks_of(range(len(bgroups)))
    dt_ = tasks_of(range(len(bgroups), len(groups)))
    order, bi = [], 0
    for n, t in enumerate(dt_):
        order.append(t)
        while bi < len(bt) and bi * len(dt_) <= n * len(bt):
            order.append(bt[bi])
            bi += 1
    order += bt[bi:]
    results = [None] * len(groups)
    try:
        futs = [(t, pool.submit(_run_batch, [groups[i] for i in t])) for t in order]
        busy = collections.Counter()
        for t, f in futs:
            rs, secs = f.result()
            busy[groups[t[0]]["via"]] += secs
            for i, r in zip(t, rs):
                results[i] = r
    finally:
        pool.shutdown()
    replay_wall = time.time() - t1
    shutil.rmtree(_RUNS, ignore_errors=True)
    log("replayed %d work units (%d invocations, %d of them with the llw binary) in %.1fs" %
        (len(groups), sum(len(r) for r in results),
         sum(len(r) for g, r in zip(groups, results) if g["via"] == "bin"), replay_wall))
    # the in-process driver must be indistinguishable from the binary on the cases run with both
    dmap = {}
    for g, recs in zip(groups, results):
        if g["via"] == "drv":
            for n, (j, rec) in enumerate(recs):
                dmap[(g["gid"], j if j is not None else "p%d" % n)] = rec
    compared, mism = 0, []
    for g, recs in zip(groups, results):
        if g["via"] == "bin":
            for n, (j, rec) in enumerate(recs):
                d = dmap[(g["gid"][1:], j if j is not None else "p%d" % n)]
                compared += 1
                if any(rec[x] != d[x] for x in ("pre", "res", "post", "changed")):
                    mism.append({"argv": rec["argv"], "grammar": g["inst"]["grammar"]["name"], "binary": rec["res"],
                                 "driver": d["res"], "binary_changed": rec["changed"], "driver_changed": d["changed"],
                                 "binary_stderr": rec["stderr"][:200], "driver_stderr": d["stderr"][:200]})
    if mism:
        raise ToolError("the in-process driver and the llw binary disagree on %d of %d cases, e.g. %s" %
                        (len(mism), compared, json.dumps(mism[:2])))

    # real transitions, spec -> impl comparison
    real = []          # flat list of records; id = index
    origin = []        # (group index, steps of the history up to and including this invocation)
    py_drift = set()
    pre_mismatch = 0
    replayed_js = set()
    for gi, (grp, recs) in enumerate(zip(groups, results)):
        tr0 = trs[grp["finals"][0][0]]
        for n, (j, rec) in enumerate(recs):
            real.append(rec)
            if j is None:
                h = tr0["h"][n]
                epre, eres, epost = h["pre"], h["res"], None
                origin.append((gi, grp["prefix"][:n + 1]))
            else:
                tr = trs[j]
                epre, eres, epost = tr["pre"], tr["res"], tr["post"]
                origin.append((gi, grp["prefix"] + [tr["fl"]]))
                replayed_js.add(j)
            if rec["pre"] != epre:
                pre_mismatch += 1
            elif rec["res"]["exit"] != eres["exit"] or set(rec["res"]["wrote"]) != set(eres["wrote"]) or \
                    rec["res"]["err"] != eres["err"] or (epost is not None and rec["post"] != epost):
                py_drift.add(len(real) - 1)
    if len(replayed_js) + skipped_ro != len(trs):
        raise ToolError("only %d of %d abstract transitions were replayed" % (len(replayed_js), len(trs)))
    # (d) + (f): TLC judges the real transitions; one corrupted record must be rejected
    trecs = [trace_record(r, i) for i, r in enumerate(real)]
    victim = next((r for r in real if r["fl"]["check"] and not r["fl"]["format"] and not r["res"]["wrote"]
                   and r["pre"]["gclass"] == "accepted"), None)
    selftest = {"corrupted_records": 0, "rejected": 0}
    if victim is None:
        raise ToolError("binding self-test: no clean check-mode transition was recorded")
    c = copy.deepcopy(trace_record(victim, -1))
    c["res"]["wrote"] = ["genCwd"]          # pretend generated.rs changed in check mode
    c["post"]["genCwd"] = "fresh"
    trecs.append(c)
    selftest["corrupted_records"] = 1
    bad, drift, judged, trace_wall = tlc_judge(trecs, tier, tier)
    if (-1, "CheckWritesNothing") in bad:
        selftest["rejected"] = 1
    else:
        raise ToolError("binding self-test failed: TLC accepted a check-mode transition that writes generated.rs")
    bad = {b for b in bad if b[0] != -1}
    drift.pop(-1, None)
    judged -= 1
    py_bad = {(i, cl) for i, r in enumerate(real) for cl in py_failing(r["pre"], r["fl"], r["res"])}
    if py_bad != bad:
        diff = sorted(py_bad ^ bad)[:5]
        raise ToolError("TLC's verdicts and the Python cross-check disagree on %d transitions, e.g. %s" %
                        (len(py_bad ^ bad), [(real[i]["argv"], cl, real[i]["res"]) for i, cl in diff]))

    # violations: grouped by key, one report per key with its first witness
    by_key = collections.OrderedDict()
    for i, cl in sorted(bad):
        by_key.setdefault(violation_key(cl, real[i]), []).append((i, cl))
    for key, hits in by_key.items():
        i, cl = min(hits, key=lambda h: (real[h[0]]["via"] != "bin", h[0]))
        gi, steps = origin[i]
        grp = groups[gi]
        rec = real[i]
        desc = ("%s fails on the real code (%s): `%s` (cwd %s; class %s, grammar %s, invocation %d of a history of %d) "
                "exit=%d error_reported=%s changed=[%s]; %d transitions with this key" %
                (cl, "llw binary" if rec["via"] == "bin" else "lelwel::compile in process", rec["argv"], rec["cwd"],
                 rec["pre"]["gclass"], grp["inst"]["grammar"]["name"], len(steps),
                 len(steps), rec["res"]["exit"], rec["res"]["err"], "; ".join(rec["changed"]), len(hits)))
        rep.violation(key, desc, {"property": prop, "key": key, "clause": cl, "init": grp["init"],
                                  "steps": steps, "failing_step": len(steps) - 1, "inst": grp["inst"],
                                  "observed": {x: rec[x] for x in ("pre", "res", "post", "argv", "changed", "stderr")},
                                  "instances": len(hits), "how": "./check %s --replay <this file>" % prop})

    # evidence
    bad_ids = {i for i, _ in bad}
    drift_only = {i: x for i, x in drift.items() if i not in bad_ids}
    drift_groups = collections.Counter()
    drift_examples = {}
    for i, x in sorted(drift_only.items()):
        r = real[i]
        gk = "flags=%s class=%s%s" % (flags_str(r["fl"]), r["pre"]["gclass"], " panic" if r["panic"] else "")
        drift_groups[gk] += 1
        drift_examples.setdefault(gk, {"argv": r["argv"], "observed": r["res"], "spec": x["spec"],
                                       "changed": r["changed"], "stderr": r["stderr"][:200]})
    abstract_cases = set()
    nontrivial = set()
    for r in real:
        a = (json.dumps(r["pre"], sort_keys=True), json.dumps(r["fl"], sort_keys=True))
        abstract_cases.add(a)
        fl, pre = r["fl"], r["pre"]
        could_write = pre["gclass"] != "unreadable" and ((fl["format"] and not fl["check"]) or
                                                         (not fl["format"] and (not fl["check"] or fl["graph"])))
        if could_write or r["res"]["wrote"] or r["res"]["exit"] != 0 or pre["gclass"] not in ("accepted", "warn"):
            nontrivial.add(a)
    samples = []
    for i in sorted({0, len(real) // 3, 2 * len(real) // 3, len(real) - 1} | set(list(sorted(bad_ids))[:1])):
        r = real[i]
        gi, steps = origin[i]
        inst = groups[gi]["inst"]
        samples.append({"argv": r["argv"], "cwd": r["cwd"], "grammar": inst["grammar"]["name"],
                        "grammar_text": inst["grammar"]["fmt"] if inst["use_fmt"] else inst["grammar"]["raw"],
                        "layout": inst["layout"], "earlier_invocations": [flags_str(f, True) for f in steps[:-1]],
                        "pre": r["pre"], "observed": r["res"], "post": r["post"], "changed": r["changed"]})
    used = collections.Counter((groups[gi]["inst"]["grammar"]["cls"], groups[gi]["inst"]["grammar"]["name"])
                               for gi, _ in origin)
    side_res = side.result()
    side_pool.shutdown()
    rep.coverage = {
        "states": mc.distinct, "transitions": mc.generated,
        "abstract_transitions_emitted": len(trs),
        "abstract_histories_len2": sum(1 for t in trs if t["h"]),
        "traces_validated_against_impl": judged,
        "evaluations": len(real),
        "evaluations_by_route": dict(collections.Counter(
            "llw binary" if r["via"] == "bin" else "lelwel::compile in the driver process" for r in real)),
        "driver_vs_binary": {"cases_run_with_both": compared, "disagreements": len(mism)},
        "abstract_transitions_replayed": len(replayed_js),
        "work_units": len(groups),
        "distinct_abstract_cases": len(abstract_cases),
        "distinct_nontrivial": len(nontrivial),
        "rule": "cases = every transition (pre-state, flags) TLC generates for MC_Cli (all initial directories x 96 "
                "flag combinations, and again from every directory reachable by one invocation), each instantiated "
                "with K concrete grammars/layouts (concrete_per_transition); distinct = distinct (abstract pre-state as projected from the REAL "
                "directory, flags) pairs; non-trivial = the invocation is one in which a file could be written "
                "(readable grammar and: format without -c, or generate mode, or -g) or a file was actually written, "
                "or the exit status is not 0, or the grammar has an error (exit status could differ)",
        "samples": samples,
        "exhaustive": True,
        "concrete_per_transition": {"first_invocation": K0, "second_invocation": K1},
        "concrete_grammars_used": {"%s/%s" % k: v for k, v in sorted(used.items())},
        "model_drift": {"tlc_drift_lines_without_contract_failure": len(drift_only),
                        "python_spec_vs_real_mismatches_without_contract_failure": len(py_drift - bad_ids), "pre_state_mismatches": pre_mismatch,
                        "groups": dict(drift_groups), "examples": drift_examples},
        "contract_failures": {k: len(v) for k, v in by_key.items()},
        "binding_selftest": selftest,
        "spec_side": side_res,
        "calibration": cal_notes,
        "read_only_mechanisms": mechs, "read_only_cases_skipped": skipped_ro,
        "bounds": {"history_length": 2, "flags": "check x format x graph x verbose{0,1,2} x short x -o = 96",
                   "initial_directories": sum(1 for t in trs if not t["h"]) // 96,
                   "grammar_classes": 5, "unreadable_variants": len(pools["unreadable"]),
                   "layouts": ["split (cwd, grammar dir, output dir all different)", "same (cwd = grammar dir)"],
                   "paths": ["relative", "absolute"]},
        "wall": {"tlc_model_s": round(mc.wall, 1), "replay_s": round(replay_wall, 1),
                 "replay_worker_busy_s": {"llw binary": round(busy["bin"], 1), "driver": round(busy["drv"], 1)}, "tlc_trace_s": round(trace_wall, 1),
                 "total_s": round(time.time() - t0, 1)},
    }
    rep.assumptions = [
        "files written are observed as a change of existence, bytes, mtime or inode between two snapshots; every "
        "file is given an old mtime before each invocation so that a rewrite with identical bytes is visible",
        "'an error was reported' is read off stderr (codespan `error[Exxx]:` / `error:` lines and clap's `error:`)",
        "the verdict class of a concrete grammar is what the real front end reports for it in a calibration run "
        "(C12/C13 are responsible for the front end); llw never changes the class of a grammar (checked: PFrame)",
        "read-only output directory: chmod 0555 with the invocation running as uid 65534 when the check runs as "
        "root, or an output path below a regular file / a missing directory",
        "most transitions are replayed by calling lelwel::compile in a driver process (lib/p6_driver.rs) that maps "
        "the result to an exit status like src/bin/llw.rs; a covering subset (thorough: every first-invocation transition) is "
        "run with the real llw binary too and both routes must agree on every such case (driver_vs_binary)",
        "TLC, the CommunityModules Json reader and the debug build of llw (cargo build --features cli) are trusted",
    ]
    return rep


# ----------------------------------------------------------------------------------------------
# replay of one recorded violation
# ----------------------------------------------------------------------------------------------

def replay(prop, path):
    with open(path) as fh:
        r = json.load(fh)
    build_llw()
    root = os.path.join(cache_dir("p6", "replay-%d" % os.getpid()), "case")
    if os.path.exists(root):
        unprotect(root)
    recs = run_history(root, r["init"], r["steps"], r["inst"], verbose=True)
    shutil.rmtree(os.path.dirname(root), ignore_errors=True)
    failing = False
    print("replay of %s  (grammar %s: %r)" % (r["key"], r["inst"]["grammar"]["name"],
                                             r["inst"]["grammar"]["fmt"] if r["inst"]["use_fmt"] else r["inst"]["grammar"]["raw"]))
    for rec in recs:
        bad = py_failing(rec["pre"], rec["fl"], rec["res"])
        print("step %d: (cd %s && %s)" % (rec["k"] + 1, rec["cwd"], rec["argv"]))
        print("  before: " + "\n          ".join(rec["before"]))
        print("  after:  " + "\n          ".join(rec["after"]))
        print("  exit=%d error_reported=%s wrote=%s" % (rec["res"]["exit"], rec["res"]["err"], rec["res"]["wrote"]))
        print("  changed: %s" % (rec["changed"] or "nothing"))
        if rec["stderr"].strip():
            print("  stderr: " + rec["stderr"].strip().replace("\n", "\n          "))
        print("  failing clauses: %s" % (bad or "none"))
        if rec["k"] == r["failing_step"] and r["clause"] in bad:
            failing = True
    # TLC's verdict on the re-recorded transitions
    bad, _, _, _ = tlc_judge([trace_record(rec, i) for i, rec in enumerate(recs)], "replay", "quick")
    print("TLC (Trace_Cli): %s" % (sorted(bad) or "no clause fails"))
    tl = (r["failing_step"], r["clause"]) in bad
    print("VIOLATION reproduced" if failing and tl else "not reproduced")
    return 1 if failing and tl else 0
