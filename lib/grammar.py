"""Grammar model G (DESIGN 3.1): construction, rendering to .llw text, node tables, enumeration.

A grammar is a dict
  {"name", "tokens": [{"name","sym"}], "skip": [tok], "right": [tok], "start": rule,
   "parts": [rule], "rules": [{"name","elided","body": tree|None}]}
A tree is a tuple in *lelwel normal form* (explicit paren nodes, n-ary cat/alt/oc never nested
directly in themselves):
  ("tok",A) ("sym",A) ("ref",r) ("cat",[..]) ("alt",[..]) ("oc",[..]) ("paren",x|None) ("opt",x)
  ("star",x) ("plus",x) ("pred",n) ("act",n) ("assert",n) ("rename",name) ("elide",)
  ("mark",n) ("create",n,name) ("commit",) ("ret",)
("sym",A) is token A referenced through its quoted symbol.
"""
import itertools
import random

EPS_KINDS = ("pred", "act", "assert", "rename", "elide", "mark", "create", "commit", "ret")


def pascal(name):
    out, up = "", True
    for c in name:
        if up:
            out += c.upper()
            up = False
        elif c == "_":
            up = True
        else:
            out += c
    return out


# ------------------------------------------------------------------------------------------
# rendering
# ------------------------------------------------------------------------------------------

def render_tree(t, g, sep=" "):
    k = t[0]
    if k == "tok":
        return t[1]
    if k == "sym":
        return sym_of(g, t[1])
    if k == "ref":
        return t[1]
    if k == "cat":
        return sep.join(render_tree(x, g, sep) for x in t[1])
    if k == "alt":
        return (sep + "|" + sep).join(render_tree(x, g, sep) for x in t[1])
    if k == "oc":
        return (sep + "/" + sep).join(render_tree(x, g, sep) for x in t[1])
    if k == "paren":
        return "(" + (render_tree(t[1], g, sep) if t[1] is not None else "") + ")"
    if k == "opt":
        return "[" + render_tree(t[1], g, sep) + "]"
    if k == "star":
        return render_tree(t[1], g, sep) + "*"
    if k == "plus":
        return render_tree(t[1], g, sep) + "+"
    if k == "pred":
        return "?" + t[1]
    if k == "act":
        return "#" + t[1]
    if k == "assert":
        return "!" + t[1]
    if k == "rename":
        return "@" + t[1]
    if k == "elide":
        return "^"
    if k == "mark":
        return "<" + t[1]
    if k == "create":
        return t[1] + ">" + t[2]
    if k == "commit":
        return "~"
    if k == "ret":
        return "&"
    raise ValueError(k)


def sym_of(g, tok):
    for t in g["tokens"]:
        if t["name"] == tok:
            return t["sym"]
    raise KeyError(tok)


def render(g):
    """Minimal layout."""
    out = []
    if g["tokens"]:
        out.append("token " + " ".join(t["name"] + ("=" + t["sym"] if t.get("sym") else "")
                                       for t in g["tokens"]) + ";")
    if g.get("skip"):
        out.append("skip " + " ".join(g["skip"]) + ";")
    if g.get("right"):
        out.append("right " + " ".join(g["right"]) + ";")
    if g.get("start"):
        out.append("start " + g["start"] + ";")
    if g.get("parts"):
        out.append("part " + " ".join(g["parts"]) + ";")
    for r in g["rules"]:
        body = render_tree(r["body"], g) if r["body"] is not None else ""
        out.append(r["name"] + ("^" if r.get("elided") else "") + ": " + body + ";")
    return "\n".join(out) + "\n"


# ------------------------------------------------------------------------------------------
# node tables (shared numbering with the exporter: pre-order, rules in file order)
# ------------------------------------------------------------------------------------------

def node_table(g):
    nodes = []
    rules = []

    def walk(t):
        i = len(nodes)
        nodes.append(None)
        k = t[0]
        rec = {"k": k, "c": [], "t": "", "r": "", "num": "", "name": "", "via": ""}
        if k in ("tok", "sym"):
            rec["k"] = "tok"
            rec["t"] = t[1]
            rec["via"] = "sym" if k == "sym" else "name"
        elif k == "ref":
            rec["r"] = t[1]
            rec["via"] = "name"
        elif k in ("cat", "alt", "oc"):
            rec["c"] = [walk(x) for x in t[1]]
        elif k == "paren":
            rec["c"] = [walk(t[1])] if t[1] is not None else []
        elif k in ("opt", "star", "plus"):
            rec["c"] = [walk(t[1])]
        elif k in ("pred", "act", "assert", "mark"):
            rec["num"] = t[1]
        elif k == "rename":
            rec["name"] = t[1]
        elif k == "create":
            rec["num"] = t[1]
            rec["name"] = t[2]
        nodes[i] = rec
        return i + 1

    for r in g["rules"]:
        body = walk(r["body"]) if r["body"] is not None else 0
        rules.append({"name": r["name"], "elided": bool(r.get("elided")), "body": body})
    return rules, nodes


def to_tlc(g):
    """The record the TLA+ modules read (no lelwel-computed data)."""
    rules, nodes = node_table(g)
    return {
        "name": g.get("name", ""),
        "tokens": [t["name"] for t in g["tokens"]],
        "skip": list(g.get("skip", [])),
        "right": list(g.get("right", [])),
        "start": g.get("start", ""),
        "parts": [{"name": p, "mark": "EOF" + pascal(p)} for p in g.get("parts", [])],
        "rules": rules,
        "nodes": [{k: n[k] for k in ("k", "c", "t", "r", "num", "name")} for n in nodes],
    }


def export_to_tlc(e):
    """Same record built from the exporter's view of a grammar file (probe export)."""
    right = []
    symmap = {t["sym"]: t["name"] for t in e["tokens"] if t.get("sym")}
    for r in e.get("semaright", []):
        right.append(r)
    return {
        "name": e.get("name", ""),
        "tokens": [t["name"] for t in e["tokens"]],
        "skip": list(e.get("semaskip", [])),
        "right": right,
        "start": e.get("start", ""),
        "parts": [{"name": p, "mark": "EOF" + pascal(p)} for p in e.get("semaparts", [])],
        "rules": [{"name": r["name"], "elided": r["elided"], "body": r["body"]} for r in e["rules"]],
        "nodes": [{k: n[k] for k in ("k", "c", "t", "r", "num", "name")} for n in e["nodes"]],
    }


def structure_of_export(e):
    """Projection of the exporter output comparable with node_table(g) (C13)."""
    symmap = {t["sym"]: t["name"] for t in e["tokens"] if t.get("sym")}
    return {
        "tokens": [{"name": t["name"], "sym": t.get("sym", "")} for t in e["tokens"]],
        "skip": [symmap.get(s, s) for s in e.get("skip", [])],
        "right": [symmap.get(s, s) for s in e.get("right", [])],
        "starts": e.get("starts", []),
        "parts": e.get("parts", []),
        "rules": [{"name": r["name"], "elided": r["elided"], "body": r["body"]} for r in e["rules"]],
        "nodes": [{k: n[k] for k in ("k", "c", "t", "r", "num", "name", "via")} for n in e["nodes"]],
    }


def structure_of(g):
    rules, nodes = node_table(g)
    return {
        "tokens": [{"name": t["name"], "sym": t.get("sym", "")} for t in g["tokens"]],
        "skip": list(g.get("skip", [])),
        "right": list(g.get("right", [])),
        "starts": [g["start"]] if g.get("start") else [],
        "parts": list(g.get("parts", [])),
        "rules": rules,
        "nodes": nodes,
    }


# ------------------------------------------------------------------------------------------
# enumeration of small grammars (pipeline P1)
# ------------------------------------------------------------------------------------------

# levels: 0 = regex (alt allowed), 1 = oc operand, 2 = cat operand (postfix), 3 = star/plus operand
def trees(size, leaves, level, allow_oc=True, pred_ok=False):
    """All normal-form trees with exactly `size` nodes over the given leaf list."""
    if size <= 0:
        return
    if size == 1:
        for l in leaves:
            yield l
        yield ("paren", None)
        return
    # n-ary: alt (level 0), oc (level<=1), cat (level<=2)
    if level == 0:
        for kids in nary(size - 1, leaves, 1, allow_oc, "alt"):
            yield ("alt", kids)
    if level <= 1 and allow_oc:
        for kids in nary(size - 1, leaves, 2, False, "oc"):
            yield ("oc", kids)
    if level <= 2:
        for kids in nary(size - 1, leaves, 3, allow_oc, "cat"):
            yield ("cat", kids)
    # unary
    for x in trees(size - 1, leaves, 0, allow_oc):
        yield ("paren", x)
        yield ("opt", x)
    for x in trees(size - 1, leaves, 3, allow_oc):
        yield ("star", x)
        yield ("plus", x)


def nary(size, leaves, level, allow_oc, kind):
    """Lists of >= 2 trees with total size `size`, each at the given level."""
    def rec(rem, acc):
        if rem == 0:
            if len(acc) >= 2:
                yield list(acc)
            return
        for s in range(1, rem + 1):
            if rem - s == 0 and len(acc) == 0:
                continue
            for t in trees(s, leaves, level, allow_oc):
                acc.append(t)
                yield from rec(rem - s, acc)
                acc.pop()
    yield from rec(size, [])


def tree_size(t):
    k = t[0]
    if k in ("cat", "alt", "oc"):
        return 1 + sum(tree_size(x) for x in t[1])
    if k in ("paren",):
        return 1 + (tree_size(t[1]) if t[1] is not None else 0)
    if k in ("opt", "star", "plus"):
        return 1 + tree_size(t[1])
    return 1


def leaves_of(t, acc=None):
    acc = [] if acc is None else acc
    k = t[0]
    if k in ("cat", "alt", "oc"):
        for x in t[1]:
            leaves_of(x, acc)
    elif k == "paren":
        if t[1] is not None:
            leaves_of(t[1], acc)
    elif k in ("opt", "star", "plus"):
        leaves_of(t[1], acc)
    else:
        acc.append(t)
    return acc


def canonical(bodies, toks, rules):
    """Tokens and rules must be introduced in order of first use (symmetry reduction)."""
    seen_t, seen_r = [], [rules[0]]
    order = [0]
    i = 0
    while i < len(order):
        for l in leaves_of(bodies[order[i]]):
            if l[0] in ("tok", "sym") and l[1] not in seen_t:
                if toks.index(l[1]) != len(seen_t):
                    return False
                seen_t.append(l[1])
            if l[0] == "ref" and l[1] not in seen_r:
                if rules.index(l[1]) != len(seen_r):
                    return False
                seen_r.append(l[1])
                order.append(rules.index(l[1]))
        i += 1
    return len(seen_r) == len(rules)  # every rule reachable from the first


def mk(name, toks, rule_bodies, start="s", parts=(), skip=(), right=(), elided=(), syms=None):
    syms = syms or {}
    return {
        "name": name,
        "tokens": [{"name": t, "sym": syms.get(t, "")} for t in toks],
        "skip": list(skip), "right": list(right), "start": start, "parts": list(parts),
        "rules": [{"name": n, "elided": n in elided, "body": b} for n, b in rule_bodies],
    }


def enum_grammars(total, nrules=2, ntoks=3, extra_leaves=(), with_oc=False):
    """All canonical grammars with `nrules` rules (s, a, b) whose bodies have `total` nodes in sum.
    Rule 1 is the start rule; references go to non-start rules only."""
    toks = ["A", "B", "C"][:ntoks]
    rules = ["s", "a", "b"][:nrules]
    leaves = [("tok", t) for t in toks] + [("ref", r) for r in rules[1:]] + list(extra_leaves)
    n = 0
    for split in itertools.product(range(1, total + 1), repeat=nrules):
        if sum(split) != total:
            continue
        gens = [list(trees(sz, leaves, 0, with_oc)) for sz in split]
        for bodies in itertools.product(*gens):
            if not canonical(bodies, toks, rules):
                continue
            used_toks = []
            for b in bodies:
                for l in leaves_of(b):
                    if l[0] == "tok" and l[1] not in used_toks:
                        used_toks.append(l[1])
            n += 1
            yield mk("e%d_%d_%d" % (total, nrules, n), used_toks or ["A"], list(zip(rules, bodies)))


# ------------------------------------------------------------------------------------------
# random grammars
# ------------------------------------------------------------------------------------------

def random_tree(rng, depth, leaves, level=0, allow_oc=False):
    if depth <= 0 or rng.random() < 0.25:
        return rng.choice(leaves)
    r = rng.random()
    if r < 0.22 and level == 0:
        return ("alt", [random_tree(rng, depth - 1, leaves, 1, allow_oc) for _ in range(rng.randint(2, 3))])
    if r < 0.30 and level <= 1 and allow_oc:
        return ("oc", [random_tree(rng, depth - 1, leaves, 2, False) for _ in range(2)])
    if r < 0.60 and level <= 2:
        return ("cat", [random_tree(rng, depth - 1, leaves, 3, allow_oc) for _ in range(rng.randint(2, 3))])
    if r < 0.70:
        return ("paren", random_tree(rng, depth - 1, leaves, 0, allow_oc))
    if r < 0.80:
        return ("opt", random_tree(rng, depth - 1, leaves, 0, allow_oc))
    if r < 0.90:
        return ("star", random_tree(rng, depth - 1, leaves, 3, allow_oc))
    return ("plus", random_tree(rng, depth - 1, leaves, 3, allow_oc))


def random_grammar(rng, name, nrules=3, ntoks=4, depth=3, parts=False, eps_ops=True):
    toks = ["A", "B", "C", "D", "E"][:ntoks]
    rules = ["s", "a", "b", "c"][:nrules]
    leaves = [("tok", t) for t in toks] * 2 + [("ref", r) for r in rules[1:]]
    if eps_ops:
        leaves += [("act", "1"), ("rename", "x")]
    bodies = [random_tree(rng, depth, leaves) for _ in rules]
    g = mk(name, toks, list(zip(rules, bodies)))
    if parts and nrules > 1 and rng.random() < 0.5:
        g["parts"] = [rules[-1]]
    return g
