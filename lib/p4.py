"""Pipeline P4 — the grammar front end (C12 robustness of lexer/parser/semantic pass, C13 read-back).

C12: texts (A: every sequence of <= K lexical items, enumerated by TLC from spec/Frontend.tla;
B: token-level mutants of all repository/corpus grammar files; C: random UTF-8 soup) are run through
the real front end (`probe front`); TLC judges every recorded run against NoPanic / SpansValid /
Tiled of spec/Frontend.tla (one state per record, sharded over TLC processes).

C13: grammar structures (normal-form regex trees enumerated by TLC in the round-trip theorem run,
enumerated small grammars with every leaf kind, hand-written files with every declaration kind,
random grammars) are written out in a minimal and in random legal layouts, read by the real front
end (`probe export-texts`), and TLC judges written structure = read structure field by field, no
syntax error, and "the nesting lelwel read = the nesting the model's own precedence parser reads
from the written item sequence" (ReadsAsParsed).

Python only prepares data, runs the tools and maps V lines back to texts.
"""
import glob
import hashlib
import itertools
import random
import re
import subprocess

from common import *
import grammar as G

CHUNK = 60000
DRIFT_MAXLEN = 3          # LexesAsIntended is evaluated for sequences of at most this many items
MAX_KEPT = 3000           # violations kept in memory per key class (all are counted)
LATE_STAGES = ("cstdisplay", "format", "export")     # after lexing/parsing/sema/rendering: not C12


# ----------------------------------------------------------------------------------------------
# probe runner with hang / crash isolation
# ----------------------------------------------------------------------------------------------

class ProbeDied(Exception):
    def __init__(self, how, detail=""):
        Exception.__init__(self, how + " " + detail)
        self.how = how          # "hang" | "abort"
        self.detail = detail


_work = None


def workdir():
    """Private scratch directory of this run (the shared cache directory can be pruned by other checks)."""
    global _work
    if _work is None:
        import atexit
        import shutil
        _work = os.path.join(BUILD, "p4-work", "%d-%d" % (os.getpid(), int(time.time())))
        os.makedirs(_work, exist_ok=True)
        atexit.register(lambda: shutil.rmtree(_work, ignore_errors=True))
    return _work


def probe_bin():
    p = os.environ.get("VERIF_PROBE")
    if p:
        return p
    ensure_harness()
    return harness_bin("probe")


def run_probe(cmd, path, timeout):
    try:
        r = subprocess.run([probe_bin(), cmd, path], stdout=subprocess.PIPE, stderr=subprocess.PIPE,
                           text=True, timeout=timeout)
    except subprocess.TimeoutExpired:
        raise ProbeDied("hang", "no result after %ds" % timeout)
    if r.returncode != 0:
        raise ProbeDied("abort", "exit %s: %s" % (r.returncode, r.stderr[-300:]))
    return [json.loads(l) for l in r.stdout.splitlines() if l.strip()]


def probe_texts(cmd, texts, tag, timeout=240):
    """Runs `probe <cmd>` on the texts; a batch that hangs or kills the process is bisected down to
    the guilty text, which gets the record {"panic": "hang"|"abort"}."""
    path = os.path.join(workdir(), "in-%s.ndjson" % tag)
    write_ndjson(path, [{"name": "t%d" % i, "text": t} for i, t in enumerate(texts)])
    try:
        out = run_probe(cmd, path, timeout)
        if len(out) != len(texts):
            raise ProbeDied("abort", "short output")
        return out
    except ProbeDied as ex:
        if len(texts) == 1:
            return [{"panic": ex.how, "detail": ex.detail, "len": len(texts[0].encode())}]
        h = len(texts) // 2
        t2 = max(10, timeout // 2)
        return probe_texts(cmd, texts[:h], tag + "a", t2) + probe_texts(cmd, texts[h:], tag + "b", t2)
    finally:
        try:
            os.unlink(path)
        except OSError:
            pass


def digest(s, n=8):
    return hashlib.blake2b(s.encode("utf-8", "surrogatepass"), digest_size=n).hexdigest()


# ----------------------------------------------------------------------------------------------
# a Python reading of the lexical grammar (mutation boundaries and text classes only; no verdicts)
# ----------------------------------------------------------------------------------------------

TOK_RE = re.compile(
    r"(?P<DocComment>///[^\n]*\n)|(?P<LineComment>//[^\n]*\n)|(?P<BlockComment>/\*.*?\*/|/\*.*\Z)"
    r"|(?P<Whitespace>[ \t\r\n\f]+)|(?P<Id>[a-zA-Z][a-zA-Z_0-9]*)|(?P<Str>'(?:\\.|[^'\\\n])*'?)"
    r"|(?P<Predicate>\?(?:[0-9]+|t))|(?P<Action>#[0-9]+)|(?P<Assertion>![0-9]+)"
    r"|(?P<NodeRename>@(?:[a-zA-Z][a-zA-Z_0-9]*)?)|(?P<NodeMarker><[0-9]+)"
    r"|(?P<NodeCreation>[0-9]*>(?:[a-zA-Z][a-zA-Z_0-9]*)?)|(?P<Punct>[:;=()\[\]|*+^~&/])|(?P<Error>.)",
    re.S)


def pylex(text):
    return [(m.lastgroup, m.group(0)) for m in TOK_RE.finditer(text)]


def text_class(text):
    """Short digest of the shape of a text: its token kinds with names and numbers abstracted."""
    ks = []
    for k, s in pylex(text):
        if k in ("Whitespace", "LineComment", "BlockComment", "DocComment"):
            continue
        ks.append(s if k in ("Punct",) or s in ("token", "start", "right", "skip", "part") else k)
    return digest(" ".join(ks[-12:]), 4)


# ----------------------------------------------------------------------------------------------
# C12 input families
# ----------------------------------------------------------------------------------------------

def spell(item):
    """{U+XXXX} in a spelling of Frontend.tla stands for that character."""
    return re.sub(r"\{U\+([0-9A-Fa-f]+)\}", lambda m: chr(int(m.group(1), 16)), item["s"])


def tlc_sequences(k, first=0):
    """TLC enumerates the prefix tree of item sequences; returns (items, seqs, TlcResult)."""
    res = run_tlc("MC_Frontend", "MC_Frontend_Gen.cfg", env={"K": k, "FIRST": first}, workers=2,
                  timeout=1500, xmx="3g", job="p4-gen-%d-%d-%d" % (k, first, os.getpid()))
    if not res.ok:
        log(res.raw[-2000:])
        raise ToolError("TLC sequence generator failed: %s" % res.error)
    items = res.payload("ITEMS")
    out = res.payload("SEQ")          # {"s": sequence, "p": [predicted when space-joined, when newline-joined]}
    if res.distinct != len(out) or any(o is None for o in out):
        raise ToolError("generator printed %d sequences for %d states" % (len(out), res.distinct))
    return (items[0] if items else None), out, res


def file_sources():
    files = sorted(glob.glob(os.path.join(REPO, "examples", "*", "src", "*.llw")))
    files += [os.path.join(REPO, "src", "frontend", "lelwel.llw")]
    files += sorted(glob.glob(os.path.join(REPO, "tests", "frontend", "*.llw")))
    files += sorted(glob.glob(os.path.join(VERIF, "corpus", "*.llw")))
    return files


def mutants(rng, tier, spellings):
    """Token-level mutants of every grammar file: (op, file, text)."""
    per_op = 4 if tier == "quick" else 95
    small = 40 if tier == "quick" else 400
    ntrunc_big = 6 if tier == "quick" else 120
    small_del = 150 if tier == "quick" else 400
    out = []
    for f in file_sources():
        with open(f, encoding="utf-8") as fh:
            text = fh.read()
        toks = [s for _, s in pylex(text)]
        kinds = [k for k, _ in pylex(text)]
        sig = [i for i, k in enumerate(kinds) if k != "Whitespace"]
        if not sig:
            continue
        rel = os.path.relpath(f, "/")
        offs = [0]
        for s in toks:
            offs.append(offs[-1] + len(s))
        # truncation at token boundaries (after a token, and after the whitespace that follows it)
        bounds = sorted({offs[i + 1] for i in sig} | {offs[i] for i in sig})
        if len(sig) > small:
            bounds = sorted(rng.sample(bounds, min(len(bounds), ntrunc_big)))
        for b in bounds:
            out.append(("truncate", rel, text[:b]))
        for _ in range(per_op):
            b = rng.randrange(len(text) + 1)
            out.append(("truncate_char", rel, text[:b]))
        if len(sig) <= small_del:           # every single-token deletion of a small file
            for j in sig:
                out.append(("delete", rel, "".join(toks[:j] + toks[j + 1:])))
        for _ in range(per_op):
            j = rng.choice(sig)
            out.append(("delete", rel, "".join(toks[:j] + toks[j + 1:])))
            j = rng.choice(sig)
            out.append(("duplicate", rel, "".join(toks[:j + 1] + [" ", toks[j]] + toks[j + 1:])))
            j = rng.choice(sig)
            out.append(("insert", rel, "".join(toks[:j] + [rng.choice(spellings), " "] + toks[j:])))
            if len(sig) > 1:
                a = rng.randrange(len(sig) - 1)
                i1, i2 = sig[a], sig[a + 1]
                t2 = list(toks)
                t2[i1], t2[i2] = t2[i2], t2[i1]
                out.append(("swap", rel, "".join(t2)))
    return out


SOUP_EXTRA = ["'", "\\", "/*", "*/", "//", "///", "\n", "\n", " ", " ", "\r", "\t", "\u00e9", "\U0001d54f",
              "e\u0301", "\u0301", "0", "9", "_", "x", "\\'", "\\\\", "\\q", "\ufeff", "\u0000", " ",
              "a:", ";", "token", "=", "<", "?", "#", "!", "@", ">", "1", "\\\u00e9", "\\\U0001d54f", "\\\ufeff"]


def soup(rng, n, spellings):
    alpha = spellings + SOUP_EXTRA
    out = []
    for _ in range(n):
        k = rng.randint(1, 14)
        s = "".join(rng.choice(alpha) for _ in range(k))
        out.append(s[:40])
    return out


# ----------------------------------------------------------------------------------------------
# C12: one chunk = probe + normalisation + TLC judgement
# ----------------------------------------------------------------------------------------------

def non_boundaries(text):
    b = text.encode("utf-8", "surrogatepass")
    return [i for i, c in enumerate(b) if (c & 0xC0) == 0x80]


def stage_of_export_panic(e):
    at = e.get("panic_at", "")
    if e.get("panic") in ("hang", "abort"):
        return e["panic"]
    if "lexer" in at:
        return "lex"
    if "generated" in at or "parser" in at:
        return "parse"
    return "sema"


def c12_records(entries, base, tag):
    """entries: list of dicts {fam, text, [seq, sep], ...}.  Returns the TLC records (index base+j)
    and per-entry observations."""
    texts = [e["text"] for e in entries]
    outs = probe_texts("front", texts, tag)
    late = [j for j, o in enumerate(outs) if o.get("panic") in LATE_STAGES]
    fallback = {}
    if late:
        ex = probe_texts("export-texts", [texts[j] for j in late], tag + "x")
        fallback = dict(zip(late, ex))
    # where did a front-end panic happen?  (the exporter runs the same lexer/parser/sema and reports it)
    pan = [j for j, o in enumerate(outs) if o.get("panic") in ("lex", "parse", "sema")]
    if pan:
        ex = probe_texts("export-texts", [texts[j] for j in pan], tag + "p")
        for j, e in zip(pan, ex):
            at = e.get("panic_at", "")
            if at:
                entries[j]["panic_at"] = os.path.basename(at.split(":")[0]) + "@" + at.split(":")[-1]
                entries[j]["panic_msg"] = e.get("panic", "")
    recs = []
    for j, (en, o) in enumerate(zip(entries, outs)):
        # slim records: optional fields (labels/inner/len: exporter re-measurement; kinds/seq/sep: drift check)
        r = {"i": base + j, "fam": en["fam"], "panic": o.get("panic", ""), "bad_spans": [], "tiled": True,
             "lexed": False}
        ndiags = 0
        if o.get("panic", "") == "":
            r["bad_spans"] = o["bad_spans"]
            r["tiled"] = o["tiled"]
            ndiags = o["ndiags"]
            if en["fam"] == "seq" and len(en["seq"]) <= DRIFT_MAXLEN:
                r["lexed"] = True
                r["kinds"] = o["kinds"]
                r["seq"] = en["seq"]
                r["sep"] = en["sep"]
        elif j in fallback:
            e = fallback[j]
            if "diags" in e:
                r["labels"] = [[l["lo"], l["hi"]] for d in e["diags"] for l in d["labels"]]
                r["codes"] = [d["code"] or "SYNTAX" for d in e["diags"] for l in d["labels"]]
                r["inner"] = non_boundaries(en["text"])
                r["len"] = len(en["text"].encode("utf-8", "surrogatepass"))
                ndiags = len(e["diags"])
            else:       # cannot happen if `probe front` got past the semantic pass; judged as a panic
                r["panic"] = stage_of_export_panic(e)
        en["ndiags"] = ndiags
        en["late"] = o.get("panic", "") if o.get("panic") in LATE_STAGES else ""
        recs.append(r)
    return recs


def tlc_judge(prop, recs, tag, timeout=900):
    p = os.path.join(workdir(), "recs-%s-%s.ndjson" % (prop, tag))
    write_ndjson(p, recs)
    res = run_tlc("MC_Frontend", "MC_Frontend_%s.cfg" % prop, env={"RFILE": p}, workers=1, timeout=timeout,
                  xmx="3g", job="p4-%s-%s-%d" % (prop, tag, os.getpid()))
    try:
        os.unlink(p)
    except OSError:
        pass
    if not res.ok:
        log(res.raw[-3000:])
        raise ToolError("TLC judge failed on %s shard %s: %s" % (prop, tag, res.error or res.violated))
    if res.distinct != len(recs):
        raise ToolError("TLC judged %d states for %d records" % (res.distinct, len(recs)))
    return res


def c12_chunk(job):
    """Runs one chunk through the real front end and through TLC; returns a small summary."""
    entries, base, tag, selftest = job
    recs = c12_records(entries, base, tag)
    st_ids = []
    if selftest:
        for r in recs:
            if r["panic"] == "":
                c = dict(r, i=10 ** 9 + 1, bad_spans=[["E999", 3, 2 ** 31 - 1]])
                c2 = dict(r, i=10 ** 9 + 2, labels=[[0, 6]], len=5, inner=[])
                recs = recs + [c, c2]
                st_ids = [c["i"], c2["i"]]
                break
    res = tlc_judge("C12", recs, tag)
    by_i = {r["i"]: (r, en) for r, en in zip(recs, entries)}
    viol, drift = [], []
    st_hit = set()
    for v in res.payload("V"):
        if v is None:
            raise ToolError("unreadable V line")
        if v["i"] in st_ids:
            st_hit.add(v["i"])
            continue
        r, en = by_i[v["i"]]
        viol.append((v["why"], r, en))
    for v in res.payload("D"):
        if v and v["i"] in by_i:
            r, en = by_i[v["i"]]
            drift.append({"text": en["text"], "kinds": r.get("kinds"), "seq": en.get("seq"), "sep": en.get("sep")})
    fam = {}
    nontriv = set()
    nontriv_seq = 0
    late = {}
    late_ex = {}
    for en in entries:
        f = en["fam"] if en["fam"] != "mut" else "mut:" + en["op"]
        fam[f] = fam.get(f, 0) + 1
        if en["ndiags"] > 0:
            if en["fam"] == "seq":
                nontriv_seq += 1
            else:
                nontriv.add(digest(en["text"]))
        if en["late"]:
            late[en["late"]] = late.get(en["late"], 0) + 1
            if en["late"] not in late_ex or len(en["text"]) < len(late_ex[en["late"]]):
                late_ex[en["late"]] = en["text"]
    sample = None
    for en in entries:
        if en["ndiags"] > 0:
            sample = {"family": en["fam"], "text": en["text"], "diagnostics": en["ndiags"]}
            break
    return {"n": len(entries), "states": res.distinct, "gen": res.generated, "wall": res.wall,
            "viol": viol, "drift": drift, "fam": fam, "nontriv": nontriv, "nontriv_seq": nontriv_seq, "late": late, "late_ex": late_ex,
            "selftest": (len(st_ids), len(st_hit)), "sample": sample,
            "fallback": sum(1 for en in entries if en["late"]),
            "predicted": sum(1 for r, en in zip(recs, entries) if r["lexed"] and en.get("pred")),
            "unpredicted": sum(1 for r, en in zip(recs, entries) if r["lexed"] and not en.get("pred"))}


def c12_key(why, r, en):
    if why == "panic":
        if r["panic"] in ("hang", "abort"):
            return "C12:%s" % r["panic"]
        return "C12:panic:%s:%s" % (r["panic"], en.get("panic_at") or text_class(en["text"]))
    if why == "span":
        b = en["text"].encode("utf-8", "surrogatepass")
        inner = set(r.get("inner", []))
        bad = [(c, lo, hi) for c, lo, hi in r["bad_spans"]]
        bad += [(c if c != "SYNTAX" else "", lo, hi) for (lo, hi), c in zip(r.get("labels", []), r.get("codes", []))
                if lo > hi or hi > r["len"] or lo in inner or hi in inner]
        if not bad:
            return "C12:span:unclassified"
        code, lo, hi = bad[0]
        # the one class with a name of its own: the label of "invalid escape sequence" for `\<multi-byte char>`
        if code == "" and hi == lo + 2 and b[lo:lo + 1] == b"\\" and hi < len(b) and (b[hi] & 0xC0) == 0x80:
            return "C12:span:invalid_escape_of_multibyte_char"
        return "C12:span:%s" % (code or "lexer_or_syntax")
    return "C12:" + why


def bounded_map(fn, iterable, jobs=None, window=None):
    """Ordered parallel map that keeps only `window` items in flight (streams large domains)."""
    from concurrent.futures import ThreadPoolExecutor
    import collections
    jobs = jobs or max(1, min(12, NCPU - 2))
    window = window or jobs + 2
    pend = collections.deque()
    with ThreadPoolExecutor(max_workers=jobs) as ex:
        for it in iterable:
            pend.append(ex.submit(fn, it))
            if len(pend) >= window:
                yield pend.popleft().result()
        while pend:
            yield pend.popleft().result()


def judge_c12(tier):
    rep = Report("C12", tier, "model_checking")
    probe_bin()
    workdir()
    K = 3 if tier == "quick" else 4
    t0 = time.time()
    gen = {"states": 0, "trans": 0, "wall": 0.0, "nseq": 0}
    # the item table comes from the specification (generator run with K = 0: the empty sequence)
    items, s0, res0 = tlc_sequences(0)
    if not items or [o["s"] for o in s0] != [[]]:
        raise ToolError("the generator did not print the item table")
    spellings = [spell(it) for it in items]
    nitems = len(items)

    # --- family A: TLC-enumerated item sequences (streamed: one generator run per first item) -------
    def gen_run(first):
        _, s, r = tlc_sequences(K, first)
        if len({tuple(x["s"]) for x in s}) != len(s):
            raise ToolError("generator printed a sequence twice")
        return s, r

    def seq_entries():
        yield {"fam": "seq", "seq": [], "sep": "sp", "text": "", "pred": True}
        gen["states"] += res0.distinct
        gen["trans"] += res0.generated
        gen["nseq"] += 1
        firsts = [0] if tier == "quick" else list(range(1, nitems + 1))
        for s, r in bounded_map(gen_run, firsts, jobs=3, window=4):
            gen["states"] += r.distinct - (1 if firsts == [0] else 0)
            gen["trans"] += r.generated
            gen["wall"] += r.wall
            for o in s:
                q = o["s"]
                if not q:
                    continue
                gen["nseq"] += 1
                sp = [spellings[i - 1] for i in q]
                yield {"fam": "seq", "seq": q, "sep": "sp", "text": " ".join(sp), "pred": o["p"][0]}
                # the newline variant only differs for sequences of at least two items
                if len(q) >= 2 and (tier == "quick" or len(q) < K):
                    yield {"fam": "seq", "seq": q, "sep": "nl", "text": "\n".join(sp), "pred": o["p"][1]}

    # --- family B / C ----------------------------------------------------------------------------
    def mut_entries():
        rng = random.Random(seed())
        for op, f, t in mutants(rng, tier, spellings):
            yield {"fam": "mut", "op": op, "file": f, "text": t}
        # semantically interesting shapes: every kind of regex atom next to the (left / right) self
        # reference of a recursive branch, where the analysis passes classify branches and pick operators
        atoms = ["A", "e", "?1", "?t", "#1", "!1", "@x", "^", "<1", "1>y", ">z", "~", "&", "(A)", "[A]", "A*", "()", "'+'"]
        shapes = []
        for x in atoms:
            shapes += ["e %s" % x, "%s e" % x]
            for y in atoms:
                shapes += ["e %s %s" % (x, y), "%s e %s" % (x, y), "%s %s e" % (x, y)]
        for k, br in enumerate(shapes):
            for ctx in ("start s;\ns: e A;\ne: %s | N;", "start e;\ne: %s | N;", "start s;\npart e;\ns: A;\ne: N | %s;",
                        "start s;\ns: (e A / e) A;\ne: %s | N | e A;"):
                if tier == "quick" and (k + len(ctx)) % 2:
                    continue
                yield {"fam": "mut", "op": "shape", "file": "shape%d" % k,
                       "text": "token A N P='+';\n" + (ctx % br) + "\n"}
        for f in file_sources():        # the unmutated files: base line of the mutation family
            with open(f, encoding="utf-8") as fh:
                yield {"fam": "mut", "op": "original", "file": os.path.relpath(f, "/"), "text": fh.read()}

    def soup_entries():
        rng = random.Random(seed() * 7919 + 1)
        n = 10000 if tier == "quick" else 1000000
        for a in range(0, n, 10000):
            for t in soup(rng, min(10000, n - a), spellings):
                yield {"fam": "soup", "text": t}

    def chunks():
        base = 0
        n = 0
        buf = []
        for en in itertools.chain(mut_entries(), soup_entries(), seq_entries()):
            buf.append(en)
            cap = 10000 if en["fam"] == "mut" else CHUNK
            if len(buf) >= cap:
                yield (buf, base, "c%d" % n, n == 0)
                base += len(buf)
                n += 1
                buf = []
        if buf:
            yield (buf, base, "c%d" % n, n == 0)

    # --- aggregation (streaming) -----------------------------------------------------------------
    fam, late, late_ex = {}, {}, {}
    nontriv = set()
    st = [0, 0]
    drift = []
    ndrift = 0
    total = judged_states = judged_gen = fallback = predicted = unpredicted = nontriv_seq = nchunks = 0
    judge_wall = 0.0
    samples = []
    allviol = []
    vcount = {}
    for r in bounded_map(c12_chunk, chunks()):
        total += r["n"]
        judged_states += r["states"]
        judged_gen += r["gen"]
        judge_wall += r["wall"]
        fallback += r["fallback"]
        predicted += r["predicted"]
        unpredicted += r["unpredicted"]
        nchunks += 1
        if nchunks % 25 == 0:
            log("C12: %d texts judged so far (%.0fs)" % (total, time.time() - t0))
        for k, v in r["fam"].items():
            fam[k] = fam.get(k, 0) + v
        for k, v in r["late"].items():
            late[k] = late.get(k, 0) + v
        for k, v in r["late_ex"].items():
            if k not in late_ex or len(v) < len(late_ex[k]):
                late_ex[k] = v
        nontriv |= r["nontriv"]
        nontriv_seq += r["nontriv_seq"]
        st[0] += r["selftest"][0]
        st[1] += r["selftest"][1]
        ndrift += len(r["drift"])
        drift += r["drift"][:max(0, 8 - len(drift))]
        if r["sample"] and len(samples) < 6 and r["sample"]["family"] not in [x["family"] for x in samples[-2:]]:
            samples.append(r["sample"])
        for v in r["viol"]:
            k = c12_key(v[0], v[1], v[2])
            vcount[k] = vcount.get(k, 0) + 1
            if vcount[k] <= MAX_KEPT:
                allviol.append(v)
    # shortest witnesses first (the first few become replay files)
    # and one witness of every key class before the second witness of any
    allviol.sort(key=lambda v: (len(v[2]["text"]), v[2]["text"]))
    rank = {}
    order = []
    for v in allviol:
        k = ":".join(c12_key(v[0], v[1], v[2]).split(":")[:3])
        rank[k] = rank.get(k, 0) + 1
        order.append((rank[k], len(order), v))
    order.sort(key=lambda x: x[:2])
    for _, _, (why, rec, en) in order:
        key = c12_key(why, rec, en)
        desc = "C12 %s on %s text %r (panic stage %r, bad spans %s, labels %s, tiled %s)" % (
            why, en["fam"], en["text"][:120], rec["panic"], rec["bad_spans"][:3], rec.get("labels", [])[:3], rec["tiled"])
        rep.violation(key, desc, {"property": "C12", "key": key, "why": why, "text": en["text"],
                                  "family": en["fam"],
                                  "origin": {k: en[k] for k in ("op", "file", "seq", "sep", "panic_at", "panic_msg") if k in en},
                                  "record": rec, "how": "./check C12 --replay <this file>"})
    expect = sum(nitems ** n for n in range(K + 1))
    if gen["nseq"] != expect:
        raise ToolError("sequence enumeration incomplete: %d of %d" % (gen["nseq"], expect))
    if st[0] == 0 or st[0] != st[1]:
        raise ToolError("binding self-test failed: TLC did not reject the corrupted records (%s)" % st)
    log("C12: %d texts judged (%d item sequences from TLC, %d items, K=%d)" % (total, gen["nseq"], nitems, K))
    rep.coverage = {
        "states": gen["states"] + judged_states,
        "transitions": gen["trans"] + judged_gen,
        "generator_states": gen["states"],
        "judge_states": judged_states,
        "traces_validated_against_impl": total,
        "evaluations": total,
        "samples": samples,
        "families": fam,
        "distinct_nontrivial": len(nontriv) + nontriv_seq,
        "rule": "one TLC judge state per recorded front-end run; non-trivial = distinct text on which the front end "
                "reported at least one diagnostic; distinct = by construction for the enumerated family (different item "
                "sequence or separator), by content hash for mutants and soup (a soup text that happens to equal an "
                "enumerated text is counted twice)",
        "bounds": {"items": nitems, "K": K, "sequences": gen["nseq"],
                   "separators": "space and newline" + ("" if tier == "quick" else " (newline variant for length < K only)"),
                   "mutants": sum(v for k, v in fam.items() if k.startswith("mut:")),
                   "soup_texts": fam.get("soup", 0), "soup_max_chars": 40},
        "exhaustive": True,
        "exhaustive_scope": "only the enumerated part: every sequence of <= %d of the %d lexical items of Frontend.tla, "
                            "space-joined%s; mutants and soup are samples" % (K, nitems, " and newline-joined" if tier == "quick" else ""),
        "lexes_as_intended": {"sequences_of_at_most": DRIFT_MAXLEN, "compared_with_model_prediction": predicted, "no_prediction_by_model": unpredicted,
                              "drift": ndrift, "examples": drift[:5]},
        "later_stage_panics_not_C12": {"counts": late, "shortest_text": late_ex,
                                       "note": "panics of Cst Display / formatter / exporter after the front end finished; "
                                               "spans of these texts were re-measured through probe export-texts "
                                               "(lexer tiling and kinds are not observable for them)"},
        "judged_through_fallback": fallback,
        "violation_counts": vcount,
        "violations_kept_per_key": MAX_KEPT,
        "binding_selftest": {"corrupted_records": st[0], "rejected": st[1]},
        "tlc_generator_wall_s": round(gen["wall"], 1),
        "tlc_judge_wall_s_sum": round(judge_wall, 1),
        "wall_s": round(time.time() - t0, 1),
    }
    rep.assumptions = [
        "panic = a Rust panic in lexing, parsing, semantic analysis or diagnostic rendering (stages of probe front); "
        "panics of later stages (formatter: C17) are counted but are not C12 alarms",
        "a process abort (stack overflow) or a hang of a batch is bisected to one text and reported as C12:abort / C12:hang",
        "TLC and the CommunityModules Json reader are trusted",
    ]
    return rep


# ----------------------------------------------------------------------------------------------
# C13: written files
# ----------------------------------------------------------------------------------------------

def tree_tokens(t, syms):
    k = t[0]
    if k == "tok" or k == "ref":
        return [t[1]]
    if k == "sym":
        return [syms[t[1]]]
    if k in ("cat", "alt", "oc"):
        sep = {"cat": [], "alt": ["|"], "oc": ["/"]}[k]
        out = []
        for j, x in enumerate(t[1]):
            if j:
                out += sep
            out += tree_tokens(x, syms)
        return out
    if k == "paren":
        return ["("] + (tree_tokens(t[1], syms) if t[1] is not None else []) + [")"]
    if k == "opt":
        return ["["] + tree_tokens(t[1], syms) + ["]"]
    if k == "star":
        return tree_tokens(t[1], syms) + ["*"]
    if k == "plus":
        return tree_tokens(t[1], syms) + ["+"]
    return [G.render_tree(t, None)]


def decls_of(g):
    """Declaration list in the order grammar.render writes them."""
    d = []
    if g["tokens"]:
        d.append(("token", [(t["name"], t.get("sym", "")) for t in g["tokens"]]))
    if g.get("skip"):
        d.append(("skip", list(g["skip"])))
    if g.get("right"):
        d.append(("right", list(g["right"])))
    if g.get("start"):
        d.append(("start", g["start"]))
    if g.get("parts"):
        d.append(("part", list(g["parts"])))
    for r in g["rules"]:
        d.append(("rule", r["name"], bool(r.get("elided")), r["body"]))
    return d


def grammar_of(name, decls):
    """The grammar dict (structure that was written) of a declaration list."""
    toks, skip, right, parts, rules, start = [], [], [], [], [], ""
    for d in decls:
        if d[0] == "token":
            toks += [{"name": n, "sym": s} for n, s in d[1]]
    bysym = {t["sym"]: t["name"] for t in toks if t["sym"]}
    for d in decls:
        if d[0] == "skip":
            skip += [bysym.get(x, x) for x in d[1]]
        elif d[0] == "right":
            right += [bysym.get(x, x) for x in d[1]]
        elif d[0] == "start":
            start = d[1]
        elif d[0] == "part":
            parts += d[1]
        elif d[0] == "rule":
            rules.append({"name": d[1], "elided": d[2], "body": d[3]})
    return {"name": name, "tokens": toks, "skip": skip, "right": right, "start": start, "parts": parts,
            "rules": rules}


def file_tokens(decls, syms):
    """Token stream of the file: list of (declaration kind, [token spellings])."""
    out = []
    bodies = []
    for d in decls:
        if d[0] == "token":
            ts = ["token"]
            for n, s in d[1]:
                ts += [n] + (["=", s] if s else [])
            out.append(ts + [";"])
        elif d[0] in ("skip", "right", "part"):
            out.append([d[0]] + list(d[1]) + [";"])
        elif d[0] == "start":
            out.append(["start", d[1], ";"])
        else:
            b = tree_tokens(d[3], syms) if d[3] is not None else []
            bodies.append(b)
            out.append([d[1]] + (["^"] if d[2] else []) + [":"] + b + [";"])
    return out, bodies


def fuses(x, y):
    """Would writing y directly after x change the tokenisation?  (conservative)"""
    a, b = x[-1], y[0]
    if (a.isalnum() or a == "_") and (b.isalnum() or b == "_"):
        return True
    if a in "@>" and (b.isalpha()):
        return True
    if a == "/" and b in "/*":
        return True
    return False


WS = [" ", " ", " ", "  ", "\n", "\n", "\t", "\r\n", "\n\n    ", " \f ", "\n  ", "      "]
COMMENT_TEXT = ["", " c", " token A;", " it's", " é \U0001d54f", " * /", " a: b | c ;", "/", " '", " \\"]


def gap(rng, p_empty):
    if rng.random() < p_empty:
        return ""
    s = rng.choice(WS)
    while rng.random() < 0.3:
        c = rng.random()
        body = rng.choice(COMMENT_TEXT)
        if c < 0.4:
            s += "/*" + body + "*/"
        elif c < 0.8:
            s += "//" + body + "\n"
        else:
            s += "///" + body + "\n"
        if rng.random() < 0.6:
            s += rng.choice(WS)
    return s


def layout(rng, decl_toks):
    """A random legal layout of the token stream: any whitespace/comments between any two tokens,
    nothing at all where the two neighbours cannot fuse."""
    flat = [t for d in decl_toks for t in d]
    p_empty = rng.choice([0.0, 0.3, 0.7, 0.95])
    out = gap(rng, 0.5)
    for j, t in enumerate(flat):
        g_ = gap(rng, p_empty) if j else ""
        if g_ and fuses(g_, t):
            g_ += " "
        if out and fuses(out, g_ + t):
            out += " "
        out += g_ + t
    tail = gap(rng, 0.5)
    if tail and fuses(out, tail):
        out += " "
    return out + tail


def minimal_layout(decl_toks):
    return "\n".join(" ".join(d) for d in decl_toks) + "\n"


# leaves of every kind (all legal spellings of the empty-word operators)
LEAF_POOL = [("tok", "A"), ("tok", "B"), ("sym", "C"), ("sym", "Q"), ("ref", "a"), ("ref", "b_2"),
             ("pred", "1"), ("pred", "t"), ("pred", "007"), ("act", "2"), ("assert", "3"),
             ("rename", "x"), ("rename", ""), ("rename", "new_Name9"), ("elide",), ("mark", "1"), ("mark", "12"),
             ("create", "1", "x"), ("create", "", "x"), ("create", "1", ""), ("create", "", ""),
             ("create", "12", "node_name"), ("commit",), ("ret",)]
POOL_TOKENS = [("A", ""), ("B", "'b'"), ("C", "'+'"), ("Q", "'\\''"), ("Z", "'\\\\'")]


def from_model_tree(t, leaf):
    k, c = t
    if k in ("cat", "alt", "oc"):
        return (k, [from_model_tree(x, leaf) for x in c])
    if k == "paren":
        return ("paren", from_model_tree(c[0], leaf) if c else None)
    if k in ("opt", "star", "plus"):
        return (k, from_model_tree(c[0], leaf))
    return leaf(k)


def tlc_trees(tier):
    n = 5 if tier == "quick" else 6
    res = run_tlc("MC_Frontend", "MC_Frontend_RT.cfg", env={"TREE_N": n, "TREE_D": 3}, workers=4,
                  timeout=1500, xmx="3g", job="p4-rt-%d" % os.getpid())
    if not res.ok:
        log(res.raw[-3000:])
        raise ToolError("the Print/Parse round-trip theorem of Frontend.tla failed: %s" % (res.violated or res.error))
    return res.payload("TREE"), res, n


def model_files(trees, rng):
    """One grammar file per normal-form tree of the model; leaves replaced by leaves of every kind."""
    out = []
    drift = 0
    pool_decl = ("token", POOL_TOKENS)
    for n, tr in enumerate(trees):
        def leaf(_k):
            return rng.choice(LEAF_POOL)
        shape = from_model_tree(tr["t"], lambda k: ("tok", k))
        if tree_tokens(shape, {}) != tr["items"]:
            drift += 1
        body = from_model_tree(tr["t"], leaf)
        decls = [pool_decl, ("start", "s"), ("rule", "s", False, body), ("rule", "a", False, ("tok", "A")),
                 ("rule", "b_2", True, None)]
        out.append({"name": "m%d" % n, "fam": "model", "decls": decls, "canonical": False})
    return out, drift


def enum_files(tier):
    out = []
    eps = [("pred", "1"), ("act", "1"), ("assert", "1"), ("rename", "x"), ("elide",), ("mark", "1"),
           ("create", "1", "x"), ("commit",), ("ret",)]
    syms = {"A": "'a'", "B": "'+'", "C": "'\\''"}
    plan = [(1, 1), (2, 1), (3, 1), (2, 2), (3, 2)] if tier == "quick" else [(1, 1), (2, 1), (3, 1), (4, 1), (2, 2), (3, 2), (4, 2)]
    for total, nr in plan:
        leaves = eps + [("sym", t) for t in ("A", "B")]
        for g in G.enum_grammars(total, nr, 2, extra_leaves=leaves, with_oc=True):
            used = []
            for r in g["rules"]:
                for l in G.leaves_of(r["body"]):
                    if l[0] in ("tok", "sym") and l[1] not in used:
                        used.append(l[1])
            g["tokens"] = [{"name": t, "sym": syms[t]} for t in (used or ["A"])]
            out.append({"name": g["name"], "fam": "enum", "decls": decls_of(g), "canonical": True, "g": g})
    return out


def hand_files():
    T = lambda x: ("tok", x)
    S = lambda x: ("sym", x)
    R = lambda x: ("ref", x)
    cat = lambda *xs: ("cat", list(xs))
    alt = lambda *xs: ("alt", list(xs))
    oc = lambda *xs: ("oc", list(xs))
    par = lambda x: ("paren", x)
    t1 = ("token", [("A", ""), ("B", "'b'"), ("C", "")])
    t2 = ("token", [("Q", "'\\''"), ("Z", "'\\\\'")])
    t3 = ("token", [("M", "'a\\'b\\\\c'"), ("Ws", ""), ("Cm", "'//'")])
    skip1 = ("skip", ["Ws", "'//'"])
    right1 = ("right", ["Q", "'\\\\'"])
    right2 = ("right", ["'b'"])
    rules = [
        ("rule", "s", False, alt(cat(T("A"), S("B"), R("e"), ("star", R("p"))), cat(S("M"), ("opt", T("C"))))),
        ("rule", "e", False, alt(cat(R("e"), S("Q"), R("e")), cat(R("e"), T("Z"), R("e")), cat(R("e"), S("B"), R("e")),
                                 cat(par(oc(cat(T("A"), ("commit",), T("C")), T("A"))), ("rename", "x")), T("C"))),
        ("rule", "p", True, cat(("mark", "1"), T("A"), ("create", "1", "pair"), ("plus", par(alt(T("C"), ("elide",)))))),
        ("rule", "q", False, None),
        ("rule", "r_2", True, cat(("pred", "1"), T("A"), ("act", "1"), ("assert", "2"), ("create", "", "whole"), ("ret",))),
    ]
    base = [t1, t2, t3, skip1, right1, right2, ("start", "s"), ("part", ["p", "q"]), ("part", ["r_2"])] + rules
    out = [{"name": "hand_all", "fam": "hand", "decls": base, "canonical": False}]
    # the same file with the declarations in other orders (rules first, interleaved, reversed)
    out.append({"name": "hand_rules_first", "fam": "hand", "decls": rules + base[:9], "canonical": False})
    out.append({"name": "hand_reversed", "fam": "hand", "decls": list(reversed(base)), "canonical": False})
    inter = [rules[0], t1, rules[1], skip1, t3, rules[2], ("start", "s"), right1, t2, rules[3], ("part", ["p", "q"]),
             right2, rules[4], ("part", ["r_2"])]
    out.append({"name": "hand_interleaved", "fam": "hand", "decls": inter, "canonical": False})
    # minimal files, one declaration kind each next to the rule they need
    out.append({"name": "hand_tokens_only", "fam": "hand", "decls": [("token", [("A", "")])], "canonical": False})
    out.append({"name": "hand_syms_only", "fam": "hand", "decls": [("token", [("A", "'a'"), ("B", "'\\''")])], "canonical": False})
    out.append({"name": "hand_empty_rule", "fam": "hand", "decls": [("start", "s"), ("rule", "s", False, None)], "canonical": False})
    out.append({"name": "hand_elided_empty", "fam": "hand", "decls": [("start", "s"), ("rule", "s", False, R("x")), ("rule", "x", True, None)], "canonical": False})
    out.append({"name": "hand_keywordish_names", "fam": "hand",
                "decls": [("token", [("Token", ""), ("Start", "'start'"), ("T", "'token'")]), ("start", "tokens"),
                          ("rule", "tokens", False, cat(T("Token"), S("Start"), S("T"), R("starts"), R("parts_"))),
                          ("rule", "starts", False, T("T")), ("rule", "parts_", True, T("T"))], "canonical": False})
    return out


def all_leaf_tree(rng, depth, leaves, level=0):
    """Random normal-form tree with ordered choice and every leaf kind."""
    return G.random_tree(rng, depth, leaves, level, True)


def random_files(rng, n):
    out = []
    for j in range(n):
        if j % 2 == 0:
            g = G.random_grammar(rng, "rg%d" % j, nrules=rng.randint(1, 4), ntoks=rng.randint(1, 5),
                                 depth=rng.randint(1, 4), parts=True)
            out.append({"name": g["name"], "fam": "random", "decls": decls_of(g), "canonical": True, "g": g})
            continue
        ntok = rng.randint(1, 5)
        toks = POOL_TOKENS[:ntok] if ntok < 5 else POOL_TOKENS
        names = [t[0] for t in toks]
        nrules = rng.randint(1, 4)
        rnames = ["s", "a", "b_2", "cc"][:nrules]
        leaves = [("tok", t) for t in names] + [("sym", t) for t, s in toks if s] + [("ref", r) for r in rnames[1:]]
        leaves = leaves * 2 + [l for l in LEAF_POOL if l[0] not in ("tok", "sym", "ref")]
        rules = []
        for r in rnames:
            body = None if rng.random() < 0.05 else all_leaf_tree(rng, rng.randint(1, 4), leaves)
            rules.append(("rule", r, rng.random() < 0.3 and r != "s", body))
        # split the token list at random places into several token declarations
        tls = []
        cur = []
        for t in toks:
            cur.append(t)
            if rng.random() < 0.4:
                tls.append(("token", cur))
                cur = []
        if cur:
            tls.append(("token", cur))
        decls = tls + [("start", "s")] + rules
        unused = [t for t in toks if not any(l[0] in ("tok", "sym") and l[1] == t[0]
                                              for d in rules if d[3] is not None for l in G.leaves_of(d[3]))]
        if unused and rng.random() < 0.6:
            decls.append(("skip", [rng.choice([u[0], u[1] or u[0]]) for u in unused]))
        if rng.random() < 0.4:
            t = rng.choice(toks)
            decls.append(("right", [rng.choice([t[0], t[1] or t[0]])]))
        if nrules > 1 and rng.random() < 0.4:
            decls.append(("part", [rnames[-1]]))
        rng.shuffle(decls)
        out.append({"name": "rf%d" % j, "fam": "random", "decls": decls, "canonical": False})
    return out


def syms_of(decls):
    return {n: s for d in decls if d[0] == "token" for n, s in d[1] if s}


def c13_texts(files, rng, nlayouts):
    """Every written file in the minimal layout(s) and in random legal layouts."""
    out = []
    for f in files:
        g = grammar_of(f["name"], f["decls"])
        dt, bodies = file_tokens(f["decls"], syms_of(f["decls"]))
        w = G.structure_of(g)
        variants = [("min", minimal_layout(dt))]
        if f.get("canonical"):
            variants.append(("render", G.render(f["g"])))
        for j in range(nlayouts):
            variants.append(("lay%d" % j, layout(rng, dt)))
        for vn, text in variants:
            out.append({"name": f["name"] + ":" + vn, "fam": f["fam"], "variant": vn, "text": text, "w": w,
                        "bodies": bodies})
    return out


EMPTY_STRUCT = {"tokens": [], "skip": [], "right": [], "starts": [], "parts": [], "rules": [], "nodes": []}
PREC_LEVEL = {"alt": 0, "oc": 1, "cat": 2, "star": 3, "plus": 3}


def mixes_levels(w):
    """Non-trivial for C13: an operator directly (or through brackets) below an operator of another level."""
    nodes = w["nodes"]

    def below(i):          # operators reachable through paren/opt
        res = []
        for c in nodes[i]["c"]:
            k = nodes[c - 1]["k"]
            if k in PREC_LEVEL:
                res.append(k)
            elif k in ("paren", "opt"):
                res += below(c - 1)
        return res
    for i, n in enumerate(nodes):
        if n["k"] in PREC_LEVEL:
            if any(PREC_LEVEL[k] != PREC_LEVEL[n["k"]] for k in below(i)):
                return True
    return False


def c13_chunk(job):
    entries, base, tag, selftest = job
    exps = probe_texts("export-texts", [e["text"] for e in entries], tag)
    recs = []
    for j, (en, e) in enumerate(zip(entries, exps)):
        if "nodes" in e:
            rd = G.structure_of_export(e)
            nsyn = e["nsyntax"]
            en["diags"] = len(e["diags"])
        else:
            rd = dict(EMPTY_STRUCT)
            nsyn = 999
            en["panic"] = e.get("panic", "?")
        recs.append({"i": base + j, "name": en["name"], "w": en["w"], "rd": rd, "nsyntax": nsyn,
                     "bodies": en["bodies"]})
    st_ids = []
    if selftest:
        import copy
        for r in recs:
            nd = [n for n in r["rd"]["nodes"] if len(n["c"]) >= 2]
            if nd and r["nsyntax"] == 0:
                c = copy.deepcopy(r)
                c["i"] = 10 ** 9 + 1
                for n in c["rd"]["nodes"]:
                    if len(n["c"]) >= 2:
                        n["c"][0], n["c"][1] = n["c"][1], n["c"][0]
                        break
                c2 = copy.deepcopy(r)
                c2["i"] = 10 ** 9 + 2
                c2["nsyntax"] = 1
                recs = recs + [c, c2]
                st_ids = [c["i"], c2["i"]]
                break
    res = tlc_judge("C13", recs, tag)
    by_i = {r["i"]: (r, en) for r, en in zip(recs, entries)}
    viol = []
    st_hit = set()
    for v in res.payload("V"):
        if v is None:
            raise ToolError("unreadable V line")
        if v["i"] in st_ids:
            st_hit.add(v["i"])
            continue
        r, en = by_i[v["i"]]
        viol.append((v["why"], r, en))
    return {"n": len(entries), "states": res.distinct, "gen": res.generated, "wall": res.wall, "viol": viol,
            "selftest": (len(st_ids), len(st_hit))}


def judge_c13(tier):
    rep = Report("C13", tier, "model_checking")
    probe_bin()
    workdir()
    rng = random.Random(seed())
    t0 = time.time()
    trees, rt, tree_n = tlc_trees(tier)
    log("C13: round-trip theorem holds on %d trees (%d in normal form) in %.1fs" % (rt.distinct, len(trees), rt.wall))
    mfiles, render_drift = model_files(trees, rng)
    if render_drift:
        raise ToolError("the Python token renderer disagrees with Frontend.tla!Flat on %d trees" % render_drift)
    files = mfiles + enum_files(tier) + hand_files() + random_files(rng, 1500 if tier == "quick" else 20000)
    nlay = 1 if tier == "quick" else 3
    entries = []
    for f in files:
        n = nlay if f["fam"] != "hand" else 40 * nlay
        entries += c13_texts([f], rng, n)
    log("C13: %d written files, %d texts" % (len(files), len(entries)))
    jobs = []
    csize = max(1500, min(10000, -(-len(entries) // 5)))      # few JVM starts: they dominate small shards
    for n, a in enumerate(range(0, len(entries), csize)):
        jobs.append((entries[a:a + csize], a, "s%d" % n, n == 0))
    results = parallel(c13_chunk, jobs)
    st = [0, 0]
    for r in results:
        st[0] += r["selftest"][0]
        st[1] += r["selftest"][1]
        for why, rec, en in r["viol"]:
            key = "C13:%s:%s" % (why, en["name"])
            if "panic" in en:
                key = "C13:structure:unreadable:%s" % en["name"]
            desc = "C13 %s: file %s (%s family) read back differently; text %r" % (why, en["name"], en["fam"], en["text"][:160])
            rep.violation(key, desc, {"property": "C13", "key": key, "why": why, "name": en["name"], "text": en["text"],
                                      "family": en["fam"], "written": en["w"], "read": rec["rd"],
                                      "bodies": en["bodies"], "nsyntax": rec["nsyntax"],
                                      "how": "./check C13 --replay <this file>"})
    if st[0] == 0 or st[0] != st[1]:
        raise ToolError("binding self-test failed: TLC did not reject the corrupted records (%s)" % st)
    fam, famfiles = {}, {}
    for e in entries:
        fam[e["fam"]] = fam.get(e["fam"], 0) + 1
    for f in files:
        famfiles[f["fam"]] = famfiles.get(f["fam"], 0) + 1
    distinct = {}
    for e in entries:
        distinct.setdefault(digest(json.dumps(e["w"], sort_keys=True)), e["w"])
    nontriv = sum(1 for w in distinct.values() if mixes_levels(w))
    kinds = set()
    for w in distinct.values():
        kinds |= {n["k"] for n in w["nodes"]}
    decl_kinds = sorted({d[0] + ("^" if d[0] == "rule" and d[2] else "") + ("=sym" if d[0] == "token" and any(s for _, s in d[1]) else "")
                         for f in files for d in f["decls"]})
    judged = sum(r["states"] for r in results)
    pick = [e for e in entries if e["variant"].startswith("lay")]
    rep.coverage = {
        "states": rt.distinct + judged,
        "transitions": rt.generated + sum(r["gen"] for r in results),
        "judge_states": judged,
        "traces_validated_against_impl": len(entries),
        "evaluations": len(entries),
        "samples": [{"name": e["name"], "text": e["text"]} for e in pick[:: max(1, len(pick) // 5)][:6]],
        "families_texts": fam, "families_files": famfiles,
        "distinct_structures": len(distinct),
        "distinct_nontrivial": nontriv,
        "rule": "one TLC judge state per (written structure, layout) pair; distinct = distinct written structure (hash of "
                "tokens/skip/right/starts/parts/rules/node table); non-trivial = the node table has an operator of one "
                "precedence level (alt < oc < cat < star/plus) directly or through brackets below an operator of another level",
        "node_kinds_covered": sorted(kinds),
        "declaration_kinds_covered": decl_kinds,
        "roundtrip_theorem": {"holds": True, "states": rt.distinct, "normal_form_trees": len(trees),
                              "bounds": {"nodes": tree_n, "operator_depth": 3, "leaves": 2, "max_arity": 3},
                              "statement": "WF(Paren(t)), WF(t) <=> Paren(t)=t, Parse(PrintTree(t)) = Paren(t), "
                                           "Parse(Flat(t)) = t <=> WF(t)", "wall_s": round(rt.wall, 1)},
        "renderer_vs_model_drift": render_drift,
        "bounds": {"model_tree_nodes": tree_n, "enumerated_grammar_nodes": 3 if tier == "quick" else 4,
                   "random_layouts_per_file": nlay, "hand_file_layouts": 40 * nlay},
        "exhaustive": True,
        "exhaustive_scope": "only the enumerated structures (all normal-form regex trees of <= %d nodes / operator depth 3 over "
                            "2 leaf positions, arity <= 3; all canonical 1-2 rule grammars of <= %d nodes with every leaf kind); "
                            "leaf kinds in model trees, layouts and random grammars are samples" % (tree_n, 3 if tier == "quick" else 4),
        "binding_selftest": {"corrupted_records": st[0], "rejected": st[1]},
        "tlc_judge_wall_s_sum": round(sum(r["wall"] for r in results), 1),
        "wall_s": round(time.time() - t0, 1),
    }
    rep.assumptions = [
        "the exporter (harness/src/export.rs) reports lelwel's typed AST view (ast.rs accessors) faithfully",
        "only grammars that pass name resolution are generated (structure_of_export resolves references through lelwel's bindings)",
        "TLC and the CommunityModules Json reader are trusted",
    ]
    return rep


# ----------------------------------------------------------------------------------------------
# entry points
# ----------------------------------------------------------------------------------------------

def judge(prop, tier):
    if prop == "C12":
        return judge_c12(tier)
    if prop == "C13":
        return judge_c13(tier)
    raise ToolError("p4 has no check for %s" % prop)


def replay(prop, path):
    with open(path) as fh:
        o = json.load(fh)
    if prop == "C12":
        en = {"fam": o.get("family", "soup"), "text": o["text"]}
        if en["fam"] == "seq":
            en.update(o.get("origin", {}))
        recs = c12_records([en], 0, "replay")
        print(json.dumps(probe_texts("front", [o["text"]], "replay1")[0], sort_keys=True))
        res = tlc_judge("C12", recs, "replay")
        vs = [v for v in res.payload("V") if v]
        for v in vs:
            print("still failing:", c12_key(v["why"], recs[0], en))
        return 1 if vs else 0
    e = probe_texts("export-texts", [o["text"]], "replay")[0]
    rd = G.structure_of_export(e) if "nodes" in e else dict(EMPTY_STRUCT)
    rec = {"i": 0, "name": o["name"], "w": o["written"], "rd": rd, "nsyntax": e.get("nsyntax", 999), "bodies": o["bodies"]}
    res = tlc_judge("C13", [rec], "replay")
    vs = [v for v in res.payload("V") if v]
    print(json.dumps({"text": o["text"], "read": rd, "nsyntax": rec["nsyntax"],
                      "diags": [d["msg"] for d in e.get("diags", [])][:5]}, sort_keys=True)[:4000])
    for v in vs:
        print("still failing: C13:%s:%s" % (v["why"], o["name"]))
    return 1 if vs else 0
