"""Shared plumbing of the /verif checks: tree hash, harness build, TLC runner, evidence, findings.

Exit codes of a check: 0 = property held on everything explored (known findings are printed as
KNOWN-FINDING lines), 1 = VIOLATION line printed, 2 = tool error / timeout.
"""
import hashlib
import json
import os
import re
import shutil
import subprocess
import sys
import time
from concurrent.futures import ThreadPoolExecutor

VERIF = os.path.dirname(os.path.dirname(os.path.abspath(__file__)))
REPO = os.environ.get("VERIF_REPO", "/repo")
BUILD = os.path.join(VERIF, "build")
SPEC = os.path.join(VERIF, "spec")
HARNESS = os.path.join(VERIF, "harness")
EVIDENCE = os.path.join(VERIF, "evidence")
REPLAYS = os.path.join(VERIF, "replays")
TLA_JAR = "/opt/veriftools/tla/tla2tools.jar"
TLA_DEPS = "/opt/veriftools/tla/CommunityModules-deps.jar"
NCPU = os.cpu_count() or 8


class ToolError(Exception):
    pass


def log(*a):
    print("[verif]", *a, file=sys.stderr, flush=True)


def seed():
    try:
        return int(os.environ.get("VERIF_SEED", "1"))
    except ValueError:
        return 1


# ----------------------------------------------------------------------------------------------
# hashing and caching of build products (never of verdicts)
# ----------------------------------------------------------------------------------------------

def _hash_paths(paths):
    h = hashlib.sha256()
    for p in paths:
        if os.path.isdir(p):
            for root, dirs, files in os.walk(p):
                dirs[:] = sorted(d for d in dirs if d not in ("target", ".git", "__pycache__"))
                for f in sorted(files):
                    fp = os.path.join(root, f)
                    h.update(fp.encode())
                    try:
                        with open(fp, "rb") as fh:
                            h.update(fh.read())
                    except OSError:
                        pass
        elif os.path.exists(p):
            h.update(p.encode())
            with open(p, "rb") as fh:
                h.update(fh.read())
    return h.hexdigest()[:16]


_tree_hash = None


def tree_hash():
    """Hash of everything in /repo that can influence lelwel's behaviour plus the harness."""
    global _tree_hash
    if _tree_hash is None:
        _tree_hash = _hash_paths([
            os.path.join(REPO, "src"), os.path.join(REPO, "Cargo.toml"), os.path.join(REPO, "Cargo.lock"),
            os.path.join(HARNESS, "src"), os.path.join(HARNESS, "p2"), os.path.join(HARNESS, "Cargo.toml"),
            os.path.join(VERIF, "lib", "p2gen.py"),
        ])
    return _tree_hash


def cache_dir(*parts):
    d = os.path.join(BUILD, "cache", tree_hash(), *parts)
    os.makedirs(d, exist_ok=True)
    return d


def prune_cache(keep=2):
    root = os.path.join(BUILD, "cache")
    if not os.path.isdir(root):
        return
    ents = sorted((os.path.getmtime(os.path.join(root, e)), e) for e in os.listdir(root))
    now = time.time()
    for mt, e in ents[:-keep]:
        # never touch the current tree's cache or one that another check may still be using
        if e != tree_hash() and now - mt > 5400:
            shutil.rmtree(os.path.join(root, e), ignore_errors=True)


# ----------------------------------------------------------------------------------------------
# harness build (cargo, offline, path dependency on /repo's working tree)
# ----------------------------------------------------------------------------------------------

_harness_built = False


def ensure_harness():
    """Builds the harness (and thereby lelwel from /repo's current working tree) with hooks on."""
    global _harness_built
    if _harness_built:
        return
    env = dict(os.environ, CARGO_NET_OFFLINE="true")
    t0 = time.time()
    lock = os.path.join(HARNESS, "Cargo.lock")
    # the lock file is a copy of /repo's; refresh when /repo's changed
    r = subprocess.run(["cargo", "build", "--offline", "--bins"], cwd=HARNESS, env=env,
                       stdout=subprocess.PIPE, stderr=subprocess.STDOUT, text=True)
    if r.returncode != 0:
        sys.stderr.write(r.stdout[-6000:])
        raise ToolError("cargo build of the harness failed (does /repo still compile?)")
    log("harness built in %.1fs" % (time.time() - t0))
    _harness_built = True


def harness_bin(name):
    return os.path.join(HARNESS, "target", "debug", name)


def probe(args, stdin=None, timeout=600):
    ensure_harness()
    r = subprocess.run([harness_bin("probe")] + args, input=stdin, stdout=subprocess.PIPE,
                       stderr=subprocess.PIPE, text=True, timeout=timeout)
    if r.returncode != 0:
        raise ToolError("probe %s failed: %s" % (args[:1], r.stderr[-2000:]))
    return [json.loads(l) for l in r.stdout.splitlines() if l.strip()]


# ----------------------------------------------------------------------------------------------
# TLC
# ----------------------------------------------------------------------------------------------

class TlcResult:
    def __init__(self):
        self.generated = 0
        self.distinct = 0
        self.depth = 0
        self.ok = False
        self.violated = None        # name of violated invariant / property
        self.error = None           # tool-level error text
        self.lines = []             # PrintT payload lines "TAG|json"
        self.raw = ""
        self.wall = 0.0
        self.coverage = {}

    def payload(self, tag):
        out = []
        for tg, js in self.lines:
            if tg == tag:
                out.append(js)
        return out


_PRINT_RE = re.compile(r'^"([A-Z0-9_]+)\|(.*)"$')


def parse_tlc_output(text, res):
    for line in text.splitlines():
        m = _PRINT_RE.match(line)
        if m:
            try:
                inner = json.loads('"' + m.group(2) + '"')
                res.lines.append((m.group(1), json.loads(inner)))
            except Exception:
                res.lines.append((m.group(1), None))
            continue
        m = re.match(r"^(\d+) states generated, (\d+) distinct states found", line)
        if m:
            res.generated = int(m.group(1))
            res.distinct = int(m.group(2))
        m = re.match(r"^The depth of the complete state graph search is (\d+)", line)
        if m:
            res.depth = int(m.group(1))
        if "Model checking completed. No error has been found." in line:
            res.ok = True
        m = re.match(r"^Error: Invariant (\S+) is violated", line)
        if m:
            res.violated = m.group(1)
        m = re.match(r"^Error: Action property (\S+) is violated", line)
        if m:
            res.violated = m.group(1)
        if line.startswith("Error: Temporal properties were violated"):
            res.violated = "temporal"
        m = re.match(r"^<(\w+) line \d+, col \d+ to line \d+, col \d+ of module (\w+)>: (\d+):(\d+)", line)
        if m:
            res.coverage[m.group(2) + "!" + m.group(1)] = (int(m.group(3)), int(m.group(4)))
    if not res.ok and res.violated is None:
        errs = [l for l in text.splitlines() if l.startswith("Error:") or "Exception" in l]
        res.error = "\n".join(errs[:8]) or "TLC did not complete"


def run_tlc(module, cfg, env=None, workers=1, timeout=600, xmx="2g", job=None, extra=None,
            deque=False, simulate=None, coverage=False, slow_start=False):
    """Runs TLC on spec/<module>.tla with spec/<cfg>; returns a TlcResult."""
    job = job or ("%s-%s-%d" % (module, os.getpid(), int(time.time() * 1000) % 1000000))
    meta = os.path.join(BUILD, "tlc", job)
    shutil.rmtree(meta, ignore_errors=True)
    os.makedirs(meta, exist_ok=True)
    jopts = ["-Xss512m", "-Xmx" + xmx, "-XX:+UseSerialGC" if workers <= 2 else "-XX:+UseParallelGC",
             "-Djava.io.tmpdir=" + meta]
    if workers <= 2 and not slow_start:
        # many short single-worker jobs: JVM start-up dominates and does not scale in this sandbox;
        # a small processor count and the C1 compiler only make it about three times cheaper
        jopts += ["-XX:ActiveProcessorCount=2", "-XX:TieredStopAtLevel=1"]
    if deque:
        jopts.append("-Dtlc2.tool.queue.IStateQueue=StateDeque")
    cmd = ["java"] + jopts + ["-cp", TLA_JAR + ":" + TLA_DEPS, "tlc2.TLC",
                              "-workers", str(workers), "-metadir", meta, "-cleanup",
                              "-noGenerateSpecTE", "-config", cfg]
    if coverage:
        cmd += ["-coverage", "1"]
    if simulate:
        cmd += ["-simulate", simulate]
    if extra:
        cmd += extra
    cmd.append(module + ".tla")
    e = dict(os.environ)
    e.pop("JAVA_TOOL_OPTIONS", None)
    if env:
        e.update({k: str(v) for k, v in env.items()})
    res = TlcResult()
    t0 = time.time()
    try:
        r = subprocess.run(cmd, cwd=SPEC, env=e, stdout=subprocess.PIPE, stderr=subprocess.STDOUT,
                           text=True, timeout=timeout)
        res.raw = r.stdout
    except subprocess.TimeoutExpired as ex:
        res.raw = (ex.stdout or b"").decode() if isinstance(ex.stdout, bytes) else (ex.stdout or "")
        res.error = "timeout after %ds" % timeout
        res.wall = time.time() - t0
        shutil.rmtree(meta, ignore_errors=True)
        return res
    res.wall = time.time() - t0
    parse_tlc_output(res.raw, res)
    shutil.rmtree(meta, ignore_errors=True)
    return res


def parallel(fn, items, jobs=None):
    jobs = jobs or max(1, min(6, NCPU - 2))
    with ThreadPoolExecutor(max_workers=jobs) as ex:
        return list(ex.map(fn, items))


# ----------------------------------------------------------------------------------------------
# known findings, violations, evidence
# ----------------------------------------------------------------------------------------------

def load_findings():
    p = os.path.join(VERIF, "known_findings.json")
    if not os.path.exists(p):
        return {"findings": [], "fixed": []}
    with open(p) as fh:
        return json.load(fh)


def findings_for(prop):
    return [f for f in load_findings().get("findings", []) if f["property"] == prop]


def write_replay(prop, name, obj):
    d = os.path.join(REPLAYS, prop)
    os.makedirs(d, exist_ok=True)
    p = os.path.join(d, name + ".json")
    with open(p, "w") as fh:
        json.dump(obj, fh, indent=1, sort_keys=True)
    return p


class Report:
    """Collects the outcome of one check run and turns it into exit code, stdout lines, evidence."""

    def __init__(self, prop, tier, level):
        self.prop = prop
        self.tier = tier
        self.level = level
        self.t0 = time.time()
        self.violations = []       # (key, description, replay object)
        self.known_hit = {}        # finding id -> count
        self.coverage = {}
        self.assumptions = []
        self.notes = []

    def violation(self, key, desc, replay):
        """Registers a contract failure observed on the real code; classified against findings."""
        for f in findings_for(self.prop):
            if finding_matches(f, key, replay):
                self.known_hit[f["id"]] = self.known_hit.get(f["id"], 0) + 1
                return False
        self.violations.append((key, desc, replay))
        return True

    def finish(self):
        os.makedirs(EVIDENCE, exist_ok=True)
        findings = {f["id"]: f for f in findings_for(self.prop)}
        for fid, cnt in sorted(self.known_hit.items()):
            print("KNOWN-FINDING: property=%s %s (%s; hit %d times in this run)" %
                  (self.prop, fid, findings[fid]["what"], cnt))
        seen = set()
        if os.environ.get("VERIF_DEBUG"):
            groups = {}
            for key, desc, replay in self.violations:
                gk = ":".join(key.split(":")[:3])
                groups.setdefault(gk, []).append(key)
            for gk, ks in sorted(groups.items()):
                log("DEBUG violations %-60s %5d  e.g. %s" % (gk, len(ks), ks[0]))
        for i, (key, desc, replay) in enumerate(self.violations):
            if i >= 5:
                break
            name = re.sub(r"[^A-Za-z0-9_.-]", "_", "%s_%d" % (key, i))[:80]
            path = write_replay(self.prop, name, replay)
            if key not in seen:
                seen.add(key)
                print("VIOLATION property=%s replay=%s" % (self.prop, path))
                print("  " + desc)
        cov = dict(self.coverage)
        cov.setdefault("known_findings_hit", self.known_hit)
        ev = {
            "property_id": self.prop,
            "tier": self.tier,
            "seed": seed(),
            "level": self.level,
            "coverage": cov,
            "assumptions": self.assumptions,
            "wall_s": round(time.time() - self.t0, 2),
            "violations": len(self.violations),
        }
        with open(os.path.join(EVIDENCE, self.prop + ".json"), "w") as fh:
            json.dump(ev, fh, indent=1, sort_keys=True, default=str)
        return 1 if self.violations else 0


def finding_matches(f, key, replay):
    """A finding lists the exact witnesses it covers: `keys` (exact) or `key_prefixes`."""
    if key in f.get("keys", []):
        return True
    for p in f.get("key_prefixes", []):
        if key.startswith(p):
            return True
    return False


def write_ndjson(path, recs):
    with open(path, "w") as fh:
        for r in recs:
            fh.write(json.dumps(r, separators=(",", ":")) + "\n")


def read_ndjson(path):
    with open(path) as fh:
        return [json.loads(l) for l in fh if l.strip()]
