"""Pipeline P1 — grammar analysis (C09 first/follow/predict, C10 LL(1) conflicts, C14 recovery).

Grammars (enumerated up to a size bound, template families, random, repository + corpus files)
are rendered to .llw text, read and analysed by the real lelwel (probe export-texts), and TLC
judges the exported sets / conflict diagnostics against the contract definitions of
spec/Grammar.tla through spec/MC_P1.tla (one state per grammar, sharded over TLC processes).
"""
import glob
import itertools
import os
import random

from common import *
import grammar as G


# ----------------------------------------------------------------------------------------------
# grammar sources
# ----------------------------------------------------------------------------------------------

def productive_and_reachable(g):
    rules = {r["name"]: r["body"] for r in g["rules"]}
    prod = set()

    def p(t):
        k = t[0]
        if k in ("tok", "sym"):
            return True
        if k == "ref":
            return rules.get(t[1]) is None or t[1] in prod
        if k in ("cat",):
            return all(p(x) for x in t[1])
        if k in ("alt", "oc"):
            return any(p(x) for x in t[1])
        if k in ("plus",):
            return p(t[1])
        if k == "paren":
            return t[1] is None or p(t[1])
        return True
    changed = True
    while changed:
        changed = False
        for n, b in rules.items():
            if n not in prod and (b is None or p(b)):
                prod.add(n)
                changed = True
    if len(prod) != len(rules):
        return False
    seen = set([g["start"]] + list(g.get("parts", [])))
    todo = list(seen)
    while todo:
        r = todo.pop()
        b = rules.get(r)
        if b is None:
            continue
        for l in G.leaves_of(b):
            if l[0] == "ref" and l[1] not in seen:
                seen.add(l[1])
                todo.append(l[1])
    return seen == set(rules)


def enumerated(kmax, with_parts_upto=5):
    out = []
    for nr in (1, 2):
        for tot in range(1, kmax + 1):
            for g in G.enum_grammars(tot, nr, 3):
                if not productive_and_reachable(g):
                    continue
                out.append(g)
                if nr == 2 and tot <= with_parts_upto:
                    h = dict(g, name=g["name"] + "p", parts=["a"])
                    out.append(h)
    # three rules, the last one an otherwise unused part
    for tot in range(3, min(kmax, 5) + 1):
        for g in G.enum_grammars(tot - 1, 2, 2):
            if not productive_and_reachable(g):
                continue
            for pb in (("tok", "A"), ("star", ("tok", "B")), ("cat", [("tok", "A"), ("opt", ("tok", "B"))])):
                h = dict(g, name=g["name"] + "u" + pb[0], parts=["p"],
                         rules=g["rules"] + [{"name": "p", "elided": False, "body": pb}])
                toks = {t["name"] for t in h["tokens"]}
                for l in G.leaves_of(pb):
                    if l[1] not in toks:
                        h = dict(h, tokens=h["tokens"] + [{"name": l[1], "sym": ""}])
                        toks.add(l[1])
                out.append(h)
    return out


def eps_family(kmax):
    """Enumerated one-rule grammars with an empty-word operator among the leaves."""
    out = []
    for tot in range(2, kmax + 1):
        for g in G.enum_grammars(tot, 1, 2, extra_leaves=[("act", "1")]):
            if any(l[0] == "act" for r in g["rules"] for l in G.leaves_of(r["body"])):
                if productive_and_reachable(g):
                    out.append(dict(g, name="eps_" + g["name"]))
    return out


EPS_LEAVES = [("ret",), ("elide",), ("assert", "1"), ("pred", "1"), ("rename", "n1"), ("mark", "1")]


def epskinds_family(kmax):
    """Every kind of empty-word operator (return, elision, assertion, predicate, rename, marker) at every
    position of every enumerated body, the body being a NON-start rule used in a loop: `s: x* D; x: <body>;`
    (return and elision are not allowed in the start rule)."""
    out = []
    for leaf in EPS_LEAVES:
        for tot in range(2, kmax + 1):
            for g in G.enum_grammars(tot, 1, 2, extra_leaves=[leaf]):
                body = g["rules"][0]["body"]
                if not any(l[0] == leaf[0] for l in G.leaves_of(body)):
                    continue
                toks = [t["name"] for t in g["tokens"]] + ["D"]
                g2 = G.mk("epsk_%s_%s" % (leaf[0], g["name"]), toks,
                          [("s", ("cat", [("star", ("ref", "x")), ("tok", "D")])), ("x", body)])
                if productive_and_reachable(g2):
                    out.append(g2)
    return out


PRATT_POOL = {
    "add": ("cat", [("ref", "e"), ("tok", "P"), ("ref", "e")]),
    "mul": ("cat", [("ref", "e"), ("tok", "M"), ("ref", "e")]),
    "post": ("cat", [("ref", "e"), ("tok", "B")]),
    "neg": ("cat", [("tok", "U"), ("ref", "e")]),
    "paren": ("cat", [("tok", "L"), ("ref", "e"), ("tok", "R")]),
    "midop": ("cat", [("tok", "L"), ("ref", "e"), ("tok", "P"), ("tok", "R")]),
    "tern": ("cat", [("ref", "e"), ("tok", "Q"), ("ref", "e"), ("tok", "C"), ("ref", "e")]),
    "index": ("cat", [("ref", "e"), ("tok", "L"), ("ref", "e"), ("tok", "R")]),
    "gadd": ("cat", [("pred", "1"), ("ref", "e"), ("tok", "P"), ("ref", "e")]),
    "radd": ("cat", [("ref", "e"), ("tok", "P"), ("ref", "e"), ("rename", "bin")]),
    "midopt": ("cat", [("tok", "L"), ("ref", "e"), ("opt", ("tok", "M"))]),
    "multi": ("cat", [("ref", "e"), ("paren", ("alt", [("tok", "P"), ("tok", "M")])), ("ref", "e")]),
    "call": ("cat", [("ref", "e"), ("ref", "args")]),
    "nullop": ("cat", [("ref", "e"), ("opt", ("tok", "V")), ("tok", "Z")]),
    "starop": ("cat", [("ref", "e"), ("star", ("tok", "V")), ("tok", "Z")]),
    # primaries with a nullable tail: their follow is the follow of the rule, which grows through the
    # rule's own self references only
    "litopt": ("cat", [("tok", "I"), ("opt", ("tok", "V"))]),
    "litstar": ("cat", [("tok", "J"), ("star", ("tok", "V"))]),
}
ARGS_RULE = ("args", ("cat", [("tok", "L"), ("opt", ("cat", [("ref", "e"), ("star", ("cat", [("tok", "K"), ("ref", "e")]))])), ("tok", "R")]))
PRATT_STARTS = {
    "plain": ("ref", "e"),
    "opafter": ("cat", [("ref", "e"), ("tok", "P")]),
    "wrapped": ("cat", [("tok", "L"), ("ref", "e"), ("tok", "R")]),
    "list": ("star", ("cat", [("ref", "e"), ("tok", "X")])),
    "zafter": ("cat", [("ref", "e"), ("tok", "Z")]),
}


def pratt_family(rng, cap):
    out = []
    names = sorted(PRATT_POOL)
    combos = []
    for r in (1, 2, 3):
        combos += list(itertools.combinations(names, r))
    rng.shuffle(combos)
    special = [("litopt", "add"), ("litopt", "mul", "paren"), ("litstar", "add", "paren"), ("nullop",), ("starop",), ("nullop", "add"), ("midop", "add"), ("tern", "post"), ("neg", "post"), ("index", "mul")]
    combos = special + [c for c in combos if c not in special]
    for combo in combos:
        if not any(PRATT_POOL[c][1][0] == ("ref", "e") or (PRATT_POOL[c][1][0][0] == "pred") for c in combo):
            continue
        for sname, sbody in PRATT_STARTS.items():
            order = list(combo)
            rng.shuffle(order)
            branches = [PRATT_POOL[c] for c in order] + [("tok", "N")]
            rules = [("s", sbody), ("e", ("alt", branches))]
            if "call" in combo:
                rules.append(ARGS_RULE)
            toks = []
            for _, b in rules:
                for l in G.leaves_of(b):
                    if l[0] == "tok" and l[1] not in toks:
                        toks.append(l[1])
            right = [t for t in ("P", "M") if t in toks and rng.random() < 0.3]
            g = G.mk("pratt_%s_%s" % ("_".join(order), sname), toks, rules, right=right)
            if rng.random() < 0.2:
                g["parts"] = ["e"]
            out.append(g)
            # the same grammar with the rules declared bottom-up (the analysis must not depend on it)
            if len(out) % 2 == 0:
                out.append(dict(g, name=g["name"] + "_rev", rules=list(reversed(g["rules"]))))
            if len(out) >= cap:
                return out
    return out


def selfref_family():
    """Rules that refer to themselves and have a nullable tail, declared strictly top-down (no rule
    refers to an earlier one): the follow of the tail grows only through the self references."""
    T = lambda x: ("tok", x)
    R = lambda x: ("ref", x)
    cat = lambda *xs: ("cat", list(xs))
    alt = lambda *xs: ("alt", list(xs))
    opt = lambda x: ("opt", x)
    star = lambda x: ("star", x)
    specs = [
        ("mid_opt", [("s", cat(R("x"), T("D"))), ("x", alt(cat(T("L"), R("x"), T("R")), cat(T("A"), opt(T("B")))))]),
        ("opt_first", [("s", cat(R("x"), T("D"))), ("x", alt(cat(T("A"), opt(T("B"))), cat(T("L"), R("x"), T("R"))))]),
        ("mid_star", [("s", R("x")), ("x", alt(cat(T("L"), R("x"), T("R"), T("C")), cat(T("A"), star(T("B")))))]),
        ("two_level", [("s", cat(R("x"), T("D"))), ("x", alt(cat(T("L"), R("y"), T("R")), T("C"))), ("y", cat(T("A"), opt(T("B")), opt(R("y"))))]),
        ("right_rec", [("s", R("x")), ("x", alt(cat(T("A"), opt(T("B")), T("C"), R("x")), T("D")))]),
        ("pratt_opt", [("s", R("x")), ("x", alt(cat(R("x"), T("P"), R("x")), cat(R("x"), T("M"), R("x")), cat(T("N"), opt(T("V"))), cat(T("L"), R("x"), T("R"))))]),
        ("pratt_opt_wrapped", [("s", cat(T("L"), R("x"), T("R"))), ("x", alt(cat(T("N"), star(T("V"))), cat(R("x"), T("P"), R("x"))))]),
    ]
    out = []
    for nm, rules in specs:
        toks = []
        for _, b in rules:
            for l in G.leaves_of(b):
                if l[0] == "tok" and l[1] not in toks:
                    toks.append(l[1])
        out.append(G.mk("selfref_" + nm, toks, rules))
    return out


def pred_family():
    T = lambda x: ("tok", x)
    P = lambda n: ("pred", n)
    cat = lambda *xs: ("cat", list(xs))
    alt = lambda *xs: ("alt", list(xs))
    par = lambda x: ("paren", x)
    bodies = {
        "g_first": par(alt(cat(P("1"), T("A"), T("B")), cat(T("A"), T("C")))),
        "g_second": par(alt(cat(T("A"), T("B")), cat(P("1"), T("A"), T("C")))),
        "g_both": par(alt(cat(P("1"), T("A"), T("B")), cat(P("2"), T("A"), T("C")), T("B"))),
        "g_none": par(alt(cat(T("A"), T("B")), cat(T("A"), T("C")))),
        "g_true": par(alt(cat(P("t"), T("A"), T("B")), cat(T("A"), T("C")))),
        "l_guard": cat(("star", par(cat(P("1"), T("A")))), T("A")),
        "l_plain": cat(("star", T("A")), T("A")),
        "o_guard": cat(("opt", cat(P("1"), T("A"))), T("A")),
        "o_plain": cat(("opt", T("A")), T("A")),
        "p_guard": cat(("plus", par(cat(P("1"), T("A"), T("B")))), T("A")),
        "p_plain": cat(("plus", par(cat(T("A"), T("B")))), T("A")),
        "nullable_loop": cat(("star", par(("opt", T("A")))), T("B")),
        "nullable_opt": cat(("opt", ("opt", T("A"))), T("B")),
        "g_nullable_loop": cat(("star", par(cat(P("1"), ("opt", T("A"))))), T("B")),
        "g_nullable_opt": cat(("opt", cat(P("1"), ("opt", T("A")))), T("B")),
        "g_nullable_plus": cat(("plus", par(cat(P("1"), ("opt", T("A")), ("opt", T("C"))))), T("B")),
        "g_paren": par(alt(par(cat(P("1"), T("A"), T("B"))), cat(T("A"), T("C")))),
        "three": par(alt(cat(T("A"), T("B")), cat(T("C"), T("B")), cat(T("A"), T("C")))),
        "g_last_of_three": par(alt(cat(T("A"), T("B")), cat(T("C"), T("B")), cat(P("1"), T("A"), T("C")))),
        "g_mid_of_three": par(alt(cat(T("A"), T("B")), cat(P("1"), T("A"), T("C")), cat(T("A"), T("D")))),
        "g_first_of_three": par(alt(cat(P("1"), T("A"), T("B")), cat(T("A"), T("C")), cat(T("A"), T("D")))),
        "g_second_nested": cat(T("X"), ("opt", par(alt(cat(T("A"), T("B")), cat(P("1"), T("A"), T("C"))))), T("D")),
        "g_second_ref": par(alt(cat(T("A"), T("B")), cat(P("1"), ("ref", "y")))),
        "nullable_alt": cat(par(alt(("opt", T("A")), T("B"))), T("A")),
    }
    out = []
    for n, b in bodies.items():
        toks = []
        for l in G.leaves_of(b):
            if l[0] == "tok" and l[1] not in toks:
                toks.append(l[1])
        rules = [("s", b)]
        if n == "g_second_ref":
            rules.append(("y", cat(T("A"), T("C"))))
            toks.append("C")
        out.append(G.mk("pred_" + n, toks, rules))
    return out


def parts_family():
    """Parts that are also used from the start rule, rules shared between the start rule and a part,
    loops on both sides (recovery sets through dominators, end markers)."""
    T = lambda x: ("tok", x)
    R = lambda x: ("ref", x)
    cat = lambda *xs: ("cat", list(xs))
    star = lambda x: ("star", x)
    par = lambda x: ("paren", x)
    opt = lambda x: ("opt", x)
    out = []
    specs = [
        ("used_part_loop", ["stmt"], [("file", star(par(cat(R("stmt"), T("S"))))), ("stmt", cat(T("L"), T("I"), star(par(cat(T("K"), T("I"))))))]),
        ("shared_rule", ["stmt"], [("file", star(R("item"))), ("stmt", cat(T("X"), R("item"), T("Y"))), ("item", cat(T("A"), opt(T("B")), T("C")))]),
        ("shared_rule_end", ["stmt"], [("file", star(R("item"))), ("stmt", cat(T("X"), R("item"))), ("item", cat(T("A"), opt(T("B")), T("C")))]),
        ("two_parts", ["p", "q"], [("s", star(R("p"))), ("p", cat(T("A"), R("q"), T("D"))), ("q", ("alt", [("plus", T("B")), T("C")]))]),
        ("unused_part_shared", ["p"], [("s", cat(R("a"), T("D"))), ("a", cat(T("A"), star(T("B")))), ("p", cat(T("X"), R("a"), T("Y")))]),
        ("part_in_opt", ["p"], [("s", cat(T("A"), opt(R("p")), T("D"))), ("p", cat(T("B"), star(T("C"))))]),
        ("nullable_part", ["p"], [("s", cat(T("A"), R("p"), T("D"))), ("p", star(T("B")))]),
        ("nullable_part_opt", ["p", "q"], [("s", cat(T("A"), R("p"), T("D"))), ("p", cat(opt(T("B")), R("q"))), ("q", opt(T("C")))]),
        ("nested_parts", ["p", "q"], [("s", cat(R("p"), T("D"))), ("p", cat(T("A"), star(R("q")))), ("q", cat(T("B"), opt(T("C"))))]),
    ]
    for nm, parts, rules in specs:
        toks = []
        for _, b in rules:
            for l in G.leaves_of(b):
                if l[0] == "tok" and l[1] not in toks:
                    toks.append(l[1])
        out.append(G.mk("parts_" + nm, toks, rules, start=rules[0][0], parts=parts))
    return out


def randoms(rng, n):
    out = []
    tries = 0
    while len(out) < n and tries < n * 30:
        tries += 1
        g = G.random_grammar(rng, "rnd%d" % tries, nrules=rng.randint(2, 4), ntoks=rng.randint(2, 5),
                             depth=rng.randint(2, 4), parts=True)
        if productive_and_reachable(g):
            used = {l[1] for r in g["rules"] for l in G.leaves_of(r["body"]) if l[0] == "tok"}
            g["tokens"] = [t for t in g["tokens"] if t["name"] in used] or g["tokens"][:1]
            out.append(g)
    return out


def file_sources():
    files = sorted(glob.glob(os.path.join(REPO, "examples", "*", "src", "*.llw")))
    files += [os.path.join(REPO, "src", "frontend", "lelwel.llw")]
    files += sorted(glob.glob(os.path.join(REPO, "tests", "frontend", "*.llw")))
    files += sorted(glob.glob(os.path.join(VERIF, "corpus", "*.llw")))
    return files


# ----------------------------------------------------------------------------------------------
# export through the real front end + semantic pass, and TLC record construction
# ----------------------------------------------------------------------------------------------

CONFLICT_CODES = ("E011", "E012", "E013", "E014")


def tlc_record(e):
    rec = G.export_to_tlc(e)
    nodes = e["nodes"]

    def col(f):
        return [(nd[f] or []) for nd in nodes]
    conf = []
    for d in e["diags"]:
        if d["code"] in CONFLICT_CODES:
            conf.append([d["code"], d["labels"][0]["node"] if d["labels"] else 0])
    rec["lel"] = {
        "first": col("first"), "follow": col("follow"), "predict": col("predict"),
        "recovery": col("recovery"),
        "hasrec": [nd["recovery"] is not None for nd in nodes],
        "conf": conf,
        "el": [nd["elision"] or "" for nd in nodes],
        "rec": [[{"kind": b["kind"], "node": b["node"], "bp": b["bp"]} for b in r["recursive"]] for r in e["rules"]],
    }
    return rec


def judgeable(e):
    """lelwel computed analysis sets for this grammar (no name-resolution level error)."""
    if "panic" in e:
        return False
    if not e["nodes"] or not e.get("start"):
        return False
    return all(nd["first"] is not None and nd["follow"] is not None and nd["predict"] is not None
               for nd in e["nodes"])


def collect(tier, need_recovery=False, big_files=True, max_nodes=None):
    rng = random.Random(seed())
    gens = []
    if tier == "quick":
        gens += enumerated(5)
        gens += eps_family(4)
        gens += epskinds_family(3)
        gens += pratt_family(rng, 250)
        gens += pred_family()
        gens += parts_family()
        gens += selfref_family()
        gens += randoms(rng, 300)
    else:
        gens += enumerated(6)
        gens += eps_family(5)
        gens += epskinds_family(4)
        gens += pratt_family(rng, 2500)
        gens += pred_family()
        gens += parts_family()
        gens += selfref_family()
        gens += randoms(rng, 5000)
    texts = [{"name": g["name"], "text": G.render(g), "origin": "generated"} for g in gens]
    for f in file_sources():
        with open(f) as fh:
            texts.append({"name": os.path.relpath(f, "/"), "text": fh.read(), "origin": "file"})
    d = cache_dir("p1")
    inp = os.path.join(d, "texts-%s-%d.ndjson" % (tier, seed()))
    write_ndjson(inp, texts)
    exports = probe(["export-texts", inp], timeout=1800)
    assert len(exports) == len(texts)
    items = []
    skipped = {"panic": [], "unjudgeable": 0}
    for t, e in zip(texts, exports):
        if "panic" in e:
            skipped["panic"].append({"name": t["name"], "text": t["text"], "panic": e["panic"], "at": e.get("panic_at")})
            continue
        if not judgeable(e):
            skipped["unjudgeable"] += 1
            if t["origin"] == "generated":
                skipped.setdefault("generated_rejected", []).append(
                    {"name": t["name"], "text": t["text"], "codes": [x["code"] for x in e["diags"]]})
            continue
        if need_recovery and e["haserror"]:
            continue
        if max_nodes and len(e["nodes"]) > max_nodes:
            continue
        items.append((t, e))
    return items, skipped


# ----------------------------------------------------------------------------------------------
# the TLC judgement
# ----------------------------------------------------------------------------------------------

def corrupt(rec, prop):
    """Binding self-test: a copy of a real record with one recorded field corrupted."""
    import copy
    c = copy.deepcopy(rec)
    c["name"] = "SELFTEST:" + rec["name"]
    lel = c["lel"]
    if prop == "C09":
        for i, f in enumerate(lel["first"]):
            if f:
                lel["first"][i] = f[1:] if len(f) > 1 else f + ["ZZ"]
                return c
    if prop == "C10":
        lel["conf"] = lel["conf"] + [["E013", 1]] if c["nodes"][0]["k"] not in ("star", "plus") else [["E011", 1]]
        return c
    if prop == "C14":
        for i, h in enumerate(lel["hasrec"]):
            if h:
                lel["recovery"][i] = lel["recovery"][i] + ["ZZ"]
                return c
    return None


def judge(prop, tier):
    level = "model_checking"
    rep = Report(prop, tier, level)
    need_rec = prop == "C14"
    items, skipped = collect(tier, need_recovery=need_rec,
                             max_nodes=(150 if tier == "quick" else 420) if prop == "C14" else None)
    recs = [tlc_record(e) for _, e in items]
    texts = {t["name"]: t for t, _ in items}
    # binding self-test records
    selftests = []
    for r in recs:
        c = corrupt(r, prop)
        if c is not None and c != r:
            selftests.append(c)
        if len(selftests) >= 3:
            break
    allrecs = recs + selftests
    # shards: big grammars spread out, sorted by size descending round-robin
    nshard = max(1, min(12, NCPU - 2))
    order = sorted(range(len(allrecs)), key=lambda i: -len(allrecs[i]["nodes"]))
    shards = [[] for _ in range(nshard)]
    for j, i in enumerate(order):
        shards[j % nshard].append(allrecs[i])
    d = cache_dir("p1")
    jobs = []
    for k, sh in enumerate(shards):
        if not sh:
            continue
        p = os.path.join(d, "shard-%s-%s-%d.ndjson" % (prop, tier, k))
        write_ndjson(p, sh)
        jobs.append((k, p))

    def run(job):
        k, p = job
        return run_tlc("MC_P1", "MC_P1_%s.cfg" % prop, env={"GFILE": p}, workers=1,
                       timeout=3000 if tier == "thorough" else 900, job="p1-%s-%d" % (prop, k))
    results = parallel(run, jobs)
    states = sum(r.distinct for r in results)
    gen = sum(r.generated for r in results)
    for r in results:
        if not r.ok:
            log(r.raw[-3000:])
            raise ToolError("TLC failed on a P1 shard: %s" % r.error)
    mms = [js for r in results for js in r.payload("MM") if js is not None]
    # self-test accounting
    st_hit = {m["g"] for m in mms if m["g"].startswith("SELFTEST:")}
    st_ok = all(c["name"] in st_hit for c in selftests) and len(selftests) > 0
    if not st_ok:
        raise ToolError("binding self-test failed: a corrupted record was not rejected by TLC")
    mms = [m for m in mms if not m["g"].startswith("SELFTEST:")]
    by_export = {e["name"]: e for _, e in items}
    nontrivial = 0
    for _, e in items:
        if prop == "C09":
            nontrivial += any("eps" in (nd["first"] or []) for nd in e["nodes"]) or len(e["rules"]) > 1
        elif prop == "C10":
            nontrivial += any(d["code"] in CONFLICT_CODES for d in e["diags"]) or any(nd["k"] in ("alt", "star", "plus", "opt") for nd in e["nodes"])
        else:
            nontrivial += any(nd["recovery"] is not None for nd in e["nodes"])
    notreduced = 0
    for m in mms:
        if m["p"] == "PRE":
            notreduced += 1
            continue
        if m["p"] != prop:
            continue
        e = by_export.get(m["g"])
        t = texts.get(m["g"], {})
        key = classify(prop, m, e)
        desc = "%s: %s on node %s of grammar %s: spec=%s lelwel=%s" % (
            prop, m["what"], m.get("n"), m["g"], m.get("spec", m.get("code")), m.get("impl", ""))
        rep.violation(key, desc, {"property": prop, "grammar_text": t.get("text"), "grammar": m["g"],
                                  "disagreement": m, "key": key,
                                  "how": "./check %s --replay <this file>" % prop})
    # panics of the semantic pass on generated or repository grammars are C12's business; note them
    rep.coverage = {
        "states": max(states, 1), "transitions": max(gen, 1),
        "traces_validated_against_impl": len(recs),
        "samples": [{"grammar": t["text"], "origin": t["origin"]} for t, _ in items[:: max(1, len(items) // 5)][:6]],
        "grammars": len(recs), "distinct_nontrivial": int(nontrivial),
        "rule": "one TLC state per grammar; grammars are distinct by construction (canonical enumeration, "
                "named templates, seeded random, files); non-trivial = %s" % {
                    "C09": "has a nullable construct or more than one rule",
                    "C10": "has an alternation, repetition or option (a place where a conflict can be)",
                    "C14": "has at least one repetition/option with a recovery set"}[prop],
        "evaluations": len(recs),
        "not_reduced_skipped_by_spec": notreduced,
        "unjudgeable": skipped["unjudgeable"],
        "sema_panics": len(skipped["panic"]),
        "binding_selftest": {"corrupted_records": len(selftests), "rejected": len(st_hit)},
        "exhaustive": False,
        "bounds": {"enumerated_total_nodes": 5 if tier == "quick" else 6, "tlc_shards": len(jobs)},
        "tlc_wall_s": round(max(r.wall for r in results), 1),
    }
    rep.assumptions = [
        "grammar structure is taken from lelwel's own front end (made safe by C13)",
        "part end markers: only 'textbook subset of lelwel' is required (DESIGN 5, C09 corners)",
        "TLC and the CommunityModules Json reader are trusted",
    ]
    return rep


def classify(prop, m, e):
    """Key of a disagreement: property-level cause, independent of the grammar's name."""
    if prop == "C10":
        return "C10:%s:%s:%s" % (m["what"], m.get("code"), m.get("cause", ""))
    return "%s:%s:%s" % (prop, m["what"], m["g"])


def replay(prop, path):
    with open(path) as fh:
        r = json.load(fh)
    d = cache_dir("p1")
    inp = os.path.join(d, "replay.ndjson")
    write_ndjson(inp, [{"name": r["grammar"], "text": r["grammar_text"]}])
    e = probe(["export-texts", inp])[0]
    p = os.path.join(d, "replay-shard.ndjson")
    write_ndjson(p, [tlc_record(e)])
    res = run_tlc("MC_P1", "MC_P1_%s.cfg" % prop, env={"GFILE": p})
    mm = [m for m in res.payload("MM") if m and m["p"] == prop]
    print(json.dumps(mm, indent=1))
    return 1 if mm else 0


def attrs_stage(prop, tier, rep, extra_texts=()):
    """Mechanism-level judgement of analysis attributes that feed code generation:
    C05 - the elision class of every construct; C07 - the binding powers of every Pratt rule."""
    rng = random.Random(seed())
    gens = []
    if prop == "C05":
        for tot in range(2, (5 if tier == "quick" else 6) + 1):
            for g in G.enum_grammars(tot, 2, 2, extra_leaves=[("elide",)]):
                b = g["rules"][1]["body"]
                if any(l[0] == "elide" for l in G.leaves_of(b)) and not any(l[0] == "elide" for l in G.leaves_of(g["rules"][0]["body"])) \
                        and productive_and_reachable(g):
                    gens.append(dict(g, name="el_" + g["name"]))
    else:
        gens += pratt_family(rng, 300 if tier == "quick" else 3000)
    texts = [{"name": g["name"], "text": G.render(g)} for g in gens] + [{"name": n, "text": t} for n, t in extra_texts]
    d = cache_dir("p1")
    inp = os.path.join(d, "attrs-%s-%s.ndjson" % (prop, tier))
    write_ndjson(inp, texts)
    exports = probe(["export-texts", inp], timeout=1800)
    items = [(t, e) for t, e in zip(texts, exports) if "panic" not in e and e.get("nodes")]
    if prop == "C07":
        items = [(t, e) for t, e in items if any(r["recursive"] for r in e["rules"]) and not any(x["code"] in ("E003", "E004", "E005") for x in e["diags"])]
    recs = [tlc_record(e) for _, e in items]
    for r, (_, e) in zip(recs, items):
        r["right"] = e.get("semaright", [])
    # self-test
    import copy
    st = None
    for r in recs:
        if prop == "C05" and any(x == "cond" for x in r["lel"]["el"]):
            st = copy.deepcopy(r)
            st["name"] = "SELFTEST:" + r["name"]
            st["lel"]["el"] = ["none" if x == "cond" else x for x in st["lel"]["el"]]
            break
        if prop == "C07" and any(len(x) >= 2 for x in r["lel"]["rec"]):
            st = copy.deepcopy(r)
            st["name"] = "SELFTEST:" + r["name"]
            for x in st["lel"]["rec"]:
                if len(x) >= 2:
                    x[0]["bp"], x[1]["bp"] = x[1]["bp"], x[0]["bp"]
            break
    if st:
        recs.append(st)
    nshard = 4
    jobs = []
    for k in range(nshard):
        part = recs[k::nshard]
        if part:
            pth = os.path.join(d, "attrs-shard-%s-%d.ndjson" % (prop, k))
            write_ndjson(pth, part)
            jobs.append(pth)
    results = parallel(lambda pth: run_tlc("MC_P1", "MC_P1_%s.cfg" % prop, env={"GFILE": pth}, workers=1, timeout=1800,
                                           job="p1-attrs-%s-%s" % (prop, os.path.basename(pth))), jobs, jobs=4)
    mms = []
    for r in results:
        if not r.ok:
            log(r.raw[-2000:])
            raise ToolError("TLC failed in attribute stage %s: %s" % (prop, r.error))
        mms += [m for m in r.payload("MM") if m]
    if st and not any(m["g"].startswith("SELFTEST:") for m in mms):
        raise ToolError("attribute stage self-test failed (%s)" % prop)
    texts_by = {t["name"]: t["text"] for t, _ in items}
    for m in mms:
        if m["g"].startswith("SELFTEST:") or m["p"] != prop:
            continue
        rep.violation("%s:%s:%s" % (prop, m["what"], m["g"]),
                      "%s/%s grammar %s construct/rule %s: spec=%s lelwel=%s" % (prop, m["what"], m["g"], m.get("n"), m.get("spec", m.get("ra")), m.get("impl")),
                      {"property": prop, "why": m["what"], "grammar": m["g"], "grammar_text": texts_by.get(m["g"]), "disagreement": m,
                       "input": [], "entry": 0})
    return {"grammars": len(items), "states": sum(r.distinct for r in results), "transitions": sum(r.generated for r in results)}
