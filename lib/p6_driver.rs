// In-process driver for pipeline P6 (C19), see lib/p6.py.
//
// Process creation is the bottleneck of replaying ~50 000 abstract transitions into `llw`
// (this sandbox sustains ~100 exec/s in total), so the bulk of the transitions is replayed by
// calling `lelwel::compile` -- the function `llw`'s main is a thin wrapper of -- many times in
// one process, with the exit status computed exactly like src/bin/llw.rs does:
//   Ok(true) -> 0, Ok(false) -> 1, Err(e) -> "error: {e}" on stderr, status 2 (clap's error exit).
// lib/p6.py runs a covering subset of the same cases with the real `llw` binary as well and
// requires both to agree on exit status, files written and "error reported".
//
// Protocol: one command per line on stdin, tab separated:
//   cwd \t input \t output \t check \t format \t verbose \t graph \t short
// Everything `compile` writes to stderr is followed by a line "@@END <status>".
// A panic inside `compile` is status 101 (what the binary's exit status would be).
use std::io::{BufRead, Write};
use std::panic::{AssertUnwindSafe, catch_unwind};

fn main() {
    let stdin = std::io::stdin();
    for line in stdin.lock().lines() {
        let Ok(line) = line else { break };
        let f: Vec<&str> = line.split('\t').collect();
        let code = if f.len() != 8 {
            250
        } else if std::env::set_current_dir(f[0]).is_err() {
            251
        } else {
            let verbose = f[5].parse::<u8>().unwrap_or(0);
            let r = catch_unwind(AssertUnwindSafe(|| {
                lelwel::compile(f[1], f[2], f[3] == "1", f[4] == "1", verbose, f[6] == "1", f[7] == "1")
            }));
            match r {
                Ok(Ok(true)) => 0,
                Ok(Ok(false)) => 1,
                Ok(Err(e)) => {
                    eprintln!("error: {e}");
                    2
                }
                Err(_) => 101,
            }
        };
        let _ = std::io::stdout().flush();
        let _ = std::env::set_current_dir("/");
        eprintln!("\n@@END {code}");
    }
}
