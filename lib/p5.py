"""Pipeline P5 — the grammar-file formatter (C17 content preservation, C18 idempotence / check mode).

Domain (what is tried):
  A  TLC enumerates spec/FormatModel.tla's layout domain: 13 small valid grammars + 2 long ones (skeletons) in every
     layout with at most K deviating gaps (white space classes x three comment kinds) - exhaustive
     for its bounds; the texts are rendered by TLC and re-rendered here from the structured layout.
  B  every repository / corpus grammar file as is and in N seeded random legal layouts (re-layout of
     the lexed token sequence; legality is verified by re-lexing and re-parsing with the real front end).
  C  (C17, character level) token-level mutations of the files, token soup, unterminated constructs,
     multi-byte characters.
Oracle (what must hold): the contract predicates of FormatModel.tla, evaluated by TLC (MC_Format.tla,
one state per record) on the outputs RECORDED from the real formatter (`probe fmt`).  A violation is
reported only when TLC says a contract predicate fails on real output.  Python only produces texts,
runs the real code, shards, and classifies the cause of a failure for the violation key.
"""
import glob
import hashlib
import os
import random
import re
import shutil
import subprocess

from common import *

WS = " \t\r\n\f"
LONG = 2000          # longer strings are passed to TLC as SHA-256 digests


# ----------------------------------------------------------------------------------------------
# the real code: probe (optionally a mutant's, through VERIF_PROBE), llw
# ----------------------------------------------------------------------------------------------

def probe_bin():
    p = os.environ.get("VERIF_PROBE")
    if p:
        return p
    ensure_harness()
    return harness_bin("probe")


def run_probe(args, timeout=1800):
    r = subprocess.run([probe_bin()] + args, stdout=subprocess.PIPE, stderr=subprocess.PIPE, text=True,
                       timeout=timeout)
    if r.returncode != 0:
        raise ToolError("probe %s failed: %s" % (args[:1], r.stderr[-2000:]))
    return [json.loads(l) for l in r.stdout.split("\n") if l.strip()]


_batch = [0]


def probe_texts(sub, items, chunks=8):
    """items: [{"name","text"}] -> records of `probe <sub>` in the same order (parallel chunks)."""
    if not items:
        return []
    n = max(1, min(chunks, len(items) // 200 + 1))
    size = (len(items) + n - 1) // n
    _batch[0] += 1
    jobs = [(k, items[k * size:(k + 1) * size]) for k in range(n) if items[k * size:(k + 1) * size]]
    probe_bin()

    def run(job):
        k, part = job
        err = None
        for attempt in range(3):      # the cache directory may be pruned by a concurrent check
            p = os.path.join(cache_dir("p5"), "in-%d-%d-%d.ndjson" % (os.getpid(), _batch[0], k))
            try:
                write_ndjson(p, [{"name": it["name"], "text": it["text"]} for it in part])
                out = run_probe([sub, p])
            except (ToolError, OSError) as e:
                err = e
                continue
            finally:
                try:
                    os.unlink(p)
                except OSError:
                    pass
            if len(out) != len(part):
                raise ToolError("probe %s returned %d records for %d texts" % (sub, len(out), len(part)))
            return out
        raise ToolError("probe %s failed: %s" % (sub, err))
    res = []
    for out in parallel(run, jobs, jobs=min(8, max(1, NCPU - 2))):
        res += out
    return res


def llw_bin():
    p = os.environ.get("VERIF_LLW")
    if p:
        return p
    if os.environ.get("VERIF_PROBE"):
        return None      # a mutant's probe without the mutant's llw: the CLI clause is skipped
    tgt = os.path.join(BUILD, "llw-target")
    env = dict(os.environ, CARGO_TARGET_DIR=tgt, CARGO_NET_OFFLINE="true")
    t0 = time.time()
    r = subprocess.run(["cargo", "build", "--offline", "--features", "cli", "--bin", "llw"], cwd=REPO,
                       env=env, stdout=subprocess.PIPE, stderr=subprocess.STDOUT, text=True)
    if r.returncode != 0:
        sys.stderr.write(r.stdout[-4000:])
        raise ToolError("cargo build of llw failed")
    log("llw built in %.1fs" % (time.time() - t0))
    return os.path.join(tgt, "debug", "llw")


# ----------------------------------------------------------------------------------------------
# a lexer for the grammar language (mirror of frontend/lexer.rs; cross-checked against the real
# lexer on every syntactically valid text of a run) - used to place and classify, never to judge
# ----------------------------------------------------------------------------------------------

PUNCT = {":": "Colon", ";": "Semi", "=": "Equal", "(": "LPar", ")": "RPar", "[": "LBrak", "]": "RBrak",
         "|": "Or", "*": "Star", "+": "Plus", "^": "Hat", "~": "Tilde", "&": "And"}
KEYWORDS = {"token": "Token", "start": "Start", "right": "Right", "skip": "Skip", "part": "Part"}
COMMENTS = ("LineComment", "DocComment", "BlockComment")
_ID = re.compile(r"[a-zA-Z][a-zA-Z_0-9]*")
_RX = [("Predicate", re.compile(r"\?([0-9]+|t)")), ("Action", re.compile(r"#[0-9]+")),
       ("Assertion", re.compile(r"![0-9]+")), ("NodeRename", re.compile(r"@([a-zA-Z][a-zA-Z_0-9]*)?")),
       ("NodeMarker", re.compile(r"<[0-9]+")),
       ("NodeCreation", re.compile(r"[0-9]*>([a-zA-Z][a-zA-Z_0-9]*)?"))]


def lex(s):
    """-> [(kind, text, offset)] tiling s (Whitespace and Error included)."""
    out = []
    i, n = 0, len(s)
    while i < n:
        c = s[i]
        j = i + 1
        kind = "Error"
        if c in WS:
            while j < n and s[j] in WS:
                j += 1
            kind = "Whitespace"
        elif s.startswith("/*", i):
            k = s.find("*/", i + 2)
            j = n if k < 0 else k + 2
            kind = "BlockComment"
        elif s.startswith("//", i) and s.find("\n", i) >= 0:
            j = s.find("\n", i) + 1
            kind = "DocComment" if s.startswith("///", i) else "LineComment"
        elif c == "/":
            kind = "Slash"
        elif c in PUNCT:
            kind = PUNCT[c]
        elif c == "'":
            k = i + 1
            kind = "Error"
            while k < n:
                if s[k] == "'":
                    k += 1
                    kind = "Str"
                    break
                if s[k] == "\n":
                    break
                if s[k] == "\\":
                    k += 1
                    if k < n:
                        k += 1
                    continue
                k += 1
            j = min(k, n)
        else:
            m = _ID.match(s, i) if c.isascii() else None
            if m:
                j = m.end()
                kind = KEYWORDS.get(m.group(0), "Id")
            else:
                for kd, rx in _RX:
                    m = rx.match(s, i)
                    if m:
                        j = m.end()
                        kind = kd
                        break
        out.append((kind, s[i:j], i))
        i = j
    return out


def nows(s):
    return "".join(ch for ch in s if ch not in WS)


def sig(toks):
    """non-white-space tokens as [kind, text] (the shape of probe's toks_x)."""
    return [[k, t] for k, t, *_ in toks if k != "Whitespace"]


def norm_tok(t):
    """FormatModel normalisation: a line / doc comment token without its terminating newline."""
    k, x = t[0], t[1]
    if k in ("LineComment", "DocComment") and x.endswith("\n"):
        x = x[:-1]
    return [k, x]


# ----------------------------------------------------------------------------------------------
# family A: the TLC-enumerated layout domain
# ----------------------------------------------------------------------------------------------

GEN_BOUNDS = {
    # KFULL / KMED / KSMALL = max number of deviating gaps with OptsFull / OptsMed / OptsSmall
    "quick": {"KFULL": 1, "KMED": 0, "KSMALL": 2},
    "thorough": {"KFULL": 1, "KMED": 2, "KSMALL": 2},
}
NSKEL = 15        # 13 small skeletons + 2 long ones (line wrapping; one deviating gap only)


def render_layout(sktab, k, dev):
    """Independent rendering of a structured layout (cross-check of TLC's Text operator)."""
    sk = sktab["s"][k - 1]
    gaps, spell = sktab["gaps"], sktab["spell"]
    devs = {d["p"]: d for d in dev}
    out = []
    for p in range(len(sk) + 1):
        if p in devs:
            d = devs[p]
            out.append(gaps[d["pre"]])
            if d["c"] != "-":
                out.append(spell[d["c"]] + gaps[d["post"]])
        else:
            out.append("" if p == 0 else "\n" if p == len(sk) else " ")
        if p < len(sk):
            out.append(sk[p][1])
    return "".join(out)


def family_a(tier):
    b = GEN_BOUNDS[tier]
    groups = [(1, 5), (6, 10), (11, 12), (13, 15)] if tier == "quick" else [(1, 3), (4, 5), (6, 7), (8, 9), (10, 11), (12, 12), (13, 15)]

    def run(job):
        lo, hi = job
        env = dict(b, SKLO=lo, SKHI=hi)
        return run_tlc("MC_Format", "MC_Format_Gen.cfg", env=env, workers=1,
                       timeout=600 if tier == "quick" else 3000, xmx="3g",
                       job="p5-gen-%d-%d" % (lo, os.getpid()))
    results = parallel(run, groups, jobs=len(groups))
    for r in results:
        if not r.ok:
            log(r.raw[-3000:])
            raise ToolError("TLC layout generator failed: %s" % r.error)
    sktab = results[0].payload("SK")[0]
    texts = []
    mism = 0
    for r in results:
        for js in r.payload("TXT"):
            if js is None:
                raise ToolError("unparsable TXT line from the generator")
            if render_layout(sktab, js["k"], js["d"]) != js["t"]:
                mism += 1
            texts.append({"name": "A:k%d:%d" % (js["k"], len(texts)), "text": js["t"], "family": "A",
                          "layout": js["d"], "sk": js["k"]})
    if mism:
        raise ToolError("TLC's Text and the Python renderer disagree on %d layouts" % mism)
    stats = {"states": sum(r.distinct for r in results), "transitions": sum(r.generated for r in results),
             "wall": max(r.wall for r in results), "layouts": len(texts), "bounds": b}
    return texts, stats


# ----------------------------------------------------------------------------------------------
# family B: repository grammars, as is and re-laid out
# ----------------------------------------------------------------------------------------------

def file_sources():
    files = sorted(glob.glob(os.path.join(REPO, "examples", "*", "src", "*.llw")))
    files += [os.path.join(REPO, "src", "frontend", "lelwel.llw")]
    files += sorted(glob.glob(os.path.join(REPO, "tests", "frontend", "*.llw")))
    files += sorted(glob.glob(os.path.join(VERIF, "corpus", "*.llw")))
    return files


def need_sep(a, b):
    """Would gluing text a and text b risk changing the token sequence?  (conservative)"""
    if not a or not b or a.endswith("\n"):
        return False
    la, fb = a[-1], b[0]
    word = lambda ch: ch.isascii() and (ch.isalnum() or ch == "_")
    if word(la) and word(fb):
        return True
    if la in "@>?#!<" and word(fb):
        return True
    if la.isdigit() and fb == ">":
        return True
    if la == "/" and fb in "/*":
        return True
    if la == "'" or fb == "'":
        return False
    return False


CLEAN_COMMENTS = ["// c\n", "//\n", "//x\n", "/// doc\n", "///\n", "/* b */", "/**/", "/*b*/", "// üñï →\n",
                  "/* // */", "// /* x\n", "// ; : | ( [\n", "/* ; */", "//// four\n", "/** d */"]
DIRTY_COMMENTS = ["/* a\n   b */", "// tab\there\n", "/*\tt */", "/*\n*/", "// cr\r\n"]
WS_CHOICES = [("", 3), (" ", 5), ("  ", 1), ("\n", 4), ("\n\n", 1), ("\n  ", 3), ("\n        ", 1), ("\t", 0.5),
              (" \n", 0.4), ("\r\n", 0.3), ("\n\n\n", 0.3), ("\f", 0.1), ("   \n  ", 0.3)]


def rand_ws(rng, left, right, must_break=False):
    for _ in range(20):
        w = rng.choices([w for w, _ in WS_CHOICES], [p for _, p in WS_CHOICES])[0]
        if w == "" and need_sep(left, right):
            continue
        return w
    return " "


def relayout(rng, toks, dirty, pcomment):
    """toks: [[kind,text]] of the non-white-space tokens (comments included, line comments with
    their newline).  Returns a text with fresh random white space and extra comments."""
    out = []
    prev = ""
    pool = CLEAN_COMMENTS + (DIRTY_COMMENTS if dirty else [])
    for _, text in list(toks) + [["EOF", ""]]:
        r = rng.random()
        ncom = 0 if r > pcomment else 1 if r > pcomment * 0.2 else 2
        seq = [rng.choice(pool) for _ in range(ncom)]
        for c in seq + [text]:
            w = rand_ws(rng, prev, c)
            out.append(w)
            out.append(c)
            if c:
                prev = c
            elif w:
                prev = w
    return "".join(out)


def family_b(tier, rng):
    n_lay = 8 if tier == "quick" else 60
    base = []
    for f in file_sources():
        with open(f, encoding="utf-8") as fh:
            base.append({"name": "B:%s:asis" % os.path.relpath(f, "/"), "text": fh.read(), "family": "B"})
    recs = probe_texts("fmt", base)
    cands = []
    for t, r in zip(base, recs):
        if r.get("panic") or r.get("nsyn_x") != 0:
            continue            # not a syntactically valid file: no legal re-layout to speak of
        for j in range(n_lay):
            dirty = j % 4 == 3
            txt = relayout(rng, r["toks_x"], dirty, pcomment=(0.05, 0.15, 0.4)[j % 3])
            cands.append({"name": t["name"][:-4] + "L%d" % j, "text": txt, "family": "B", "dirty": dirty,
                          "want": [x for x in r["toks_x"] if x[0] not in COMMENTS]})
    return base, cands


def legal_layout(cand, rec):
    """The re-laid-out text must lex to the original tokens (comments aside) and still parse."""
    if rec.get("panic"):
        # formatter panicked: legality is judged by the Python lexer (cross-checked elsewhere)
        return [x for x in sig(lex(cand["text"])) if x[0] not in COMMENTS] == cand["want"]
    return rec["nsyn_x"] == 0 and [x for x in rec["toks_x"] if x[0] not in COMMENTS] == cand["want"]


# ----------------------------------------------------------------------------------------------
# family C: arbitrary texts
# ----------------------------------------------------------------------------------------------

SOUP = ["token", "start", "right", "skip", "part", ":", ";", "=", "(", ")", "[", "]", "|", "*", "+", "^", "~", "&",
        "/", "a", "Foo", "s", "'x'", "'\\''", "?1", "?t", "#1", "!1", "@x", "@", "<1", "1>x", ">", "2>", ">y",
        "// c\n", "/// d\n", "/* b */", "//", "/*", "*/", "'open", "'a\\", "?", "#", "!", "<", "12", "$", "\\", "\"",
        "é", "→", "\U0001F600", " ", " ", "_x", "0", "{", "}", ",", ".", "`"]
HANDMADE = [
    "", " ", "\n", "s", "s:", "s: A", "s: A\n", "s: (", "s: [A", "s: A |", "s: 'a", "s: 'a\n;", "s: A; /* open",
    "/* open", "// no newline", "s: A; // no newline", "/// doc no newline", "token", "token A", "token A =",
    "start", "start s", "right 'a", "s^", "s^:", ": ;", ";", ";;", "s: ;;", "s: A;; t: B;", "s: A $ B;", "s: A é;",
    "s: ) A;", "s: ] ;", "s: ( ] ;", "s: A | | B;", "s: / A;", "s: A /;", "token A = ;", "token = 'a';", "start ;",
    "s: A; t", "s: A; t:", "s: A;\nt: (B", "s: [ ( A ] );", "12", "?", "s: 12 A;", "s: ?x;", "s: A // c", "s: A /* c",
    "s: A;   t: B;", "﻿s: A;", "s: 'éè' \U0001F600;", "s: A\r\n| B\r\n;\r\n", "s : A ; ; ;", "token A;;",
    "s: (A;", "s: (A; t: B);", "s: [A; t: B;", "s: A | ; ;", "// only a comment\n", "/* only */", "/* a */ /* b */",
    "s: A; ) t: B;", "s: A ) ; t: B;", "= = =", "token token;", "start start;", "s: : A;", "s: A: B;",
]


def mutate(rng, toks):
    toks = list(toks)
    for _ in range(rng.randint(1, 3)):
        if not toks:
            break
        op = rng.randrange(6)
        i = rng.randrange(len(toks))
        if op == 0:
            del toks[i]
        elif op == 1:
            toks.insert(i, toks[i])
        elif op == 2:
            toks.insert(i, rng.choice(SOUP))
        elif op == 3:
            j = rng.randrange(len(toks))
            toks[i], toks[j] = toks[j], toks[i]
        elif op == 4:
            toks[i] = rng.choice(SOUP)
        else:
            sig_idx = [k for k, t in enumerate(toks) if t.strip()]
            if sig_idx:
                del toks[rng.choice(sig_idx)]
    return "".join(toks)


def family_c(tier, rng):
    n_mut = 25 if tier == "quick" else 250
    n_soup = 1500 if tier == "quick" else 20000
    out = []
    for k, t in enumerate(HANDMADE):
        out.append({"name": "C:hand:%d" % k, "text": t})
    for f in file_sources():
        with open(f, encoding="utf-8") as fh:
            src = fh.read()
        rel = os.path.relpath(f, "/")
        if "tests/frontend" in rel and os.path.exists(os.path.join(REPO, "examples", os.path.basename(f)[:-4])):
            continue        # copies of the example grammars
        toks = [t for _, t, _ in lex(src)]
        for j in range(n_mut):
            if j % 5 == 4:
                cut = rng.randrange(len(src) + 1)
                out.append({"name": "C:trunc:%s:%d" % (rel, j), "text": src[:cut]})
            else:
                out.append({"name": "C:mut:%s:%d" % (rel, j), "text": mutate(rng, toks)})
    for j in range(n_soup):
        n = rng.randint(1, 25)
        parts = []
        for _ in range(n):
            parts.append(rng.choice(SOUP))
            parts.append(rng.choice(["", " ", " ", "\n", "\n  ", "\t"]))
        out.append({"name": "C:soup:%d" % j, "text": "".join(parts)})
    for t in out:
        t["family"] = "C"
    return out


# ----------------------------------------------------------------------------------------------
# records for TLC
# ----------------------------------------------------------------------------------------------

def tlc_str(s):
    odd = any((ord(ch) < 32 and ch not in "\n\r\t\f") or ord(ch) > 0xFFFF or 0xD800 <= ord(ch) <= 0xDFFF
              or ord(ch) in (0x7F, 0xFEFF) for ch in s)
    if len(s) > LONG or odd:
        return "sha256:" + hashlib.sha256(s.encode("utf-8", "surrogatepass")).hexdigest()
    return s


def sema_norm(v):
    return [[d[0], tlc_str(nows(d[1]))] for d in v]


def tlc_tok(t):
    k, x = norm_tok(t)
    return [k, tlc_str(x)]


def record_c17(name, r):
    if r.get("panic"):
        return {"name": name, "panic": r["panic"], "x_nows": "", "f1_nows": "", "nsyn_x": 0, "nsyn_f1": 0,
                "toks_x": [], "toks_f1": [], "sema_x": [], "sema_f1": []}
    valid = r["nsyn_x"] == 0
    return {"name": name, "panic": "",
            "x_nows": tlc_str(nows(r["x"])), "f1_nows": tlc_str(nows(r["f1"])),
            "nsyn_x": r["nsyn_x"], "nsyn_f1": r["nsyn_f1"],
            # the token / diagnostic clauses apply to syntactically valid texts only
            "toks_x": [tlc_tok(t) for t in r["toks_x"]] if valid else [],
            "toks_f1": [tlc_tok(t) for t in r["toks_f1"]] if valid else [],
            "sema_x": sema_norm(r["sema_x"]) if valid else [],
            "sema_f1": sema_norm(r["sema_f1"]) if valid else []}


def record_c18(name, r):
    if r.get("panic"):
        return {"name": name, "panic": r["panic"], "nsyn_x": 0, "f1": "", "f2": ""}
    return {"name": name, "panic": "", "nsyn_x": r["nsyn_x"], "f1": tlc_str(r["f1"]), "f2": tlc_str(r["f2"])}


def run_judge(prop, tier, recs, tag="j"):
    """Shards the records over TLC processes; returns (V payloads, states, transitions, max wall)."""
    nshard = max(1, min(6 if tier == "quick" else 10, NCPU - 2, len(recs) // 300 + 1))
    weight = lambda r: len(r.get("toks_x", ())) + len(r.get("f1", "")) // 8 + 4
    order = sorted(range(len(recs)), key=lambda i: -weight(recs[i]))
    shards = [[] for _ in range(nshard)]
    for j, i in enumerate(order):
        shards[j % nshard].append(recs[i])
    jobs = [(k, sh) for k, sh in enumerate(shards) if sh]

    def run(job):
        k, sh = job
        r = None
        for attempt in range(2):      # the cache directory may be pruned by a concurrent check
            p = os.path.join(cache_dir("p5"), "shard-%s-%s-%s-%d-%d.ndjson" % (prop, tier, tag, os.getpid(), k))
            write_ndjson(p, sh)
            r = run_tlc("MC_Format", "MC_Format_%s.cfg" % prop, env={"RFILE": p}, workers=1,
                        timeout=900 if tier == "quick" else 3000, xmx="3g",
                        job="p5-%s-%s-%d-%d" % (prop, tag, k, os.getpid()))
            try:
                os.unlink(p)
            except OSError:
                pass
            if r.ok and r.distinct != len(sh):
                r.ok = False
                r.error = "TLC judged %d states for %d records" % (r.distinct, len(sh))
            if r.ok:
                break
        return r
    results = parallel(run, jobs, jobs=len(jobs))
    for r in results:
        if not r.ok:
            log(r.raw[-3000:])
            raise ToolError("TLC failed on a P5 shard: %s" % r.error)
    vs = [js for r in results for js in r.payload("V")]
    if any(v is None for v in vs):
        raise ToolError("unparsable V line from TLC")
    return vs, sum(r.distinct for r in results), sum(r.generated for r in results), max(r.wall for r in results)


# ----------------------------------------------------------------------------------------------
# cause classification (for keys only; computed from the input x and counterfactual re-runs)
# ----------------------------------------------------------------------------------------------

OPENERS = {"Colon": "colon", "LBrak": "lbrak", "LPar": "lpar", "Or": "or", "Slash": "slash"}
WSNAMES = {"\t": "tab", "\r": "cr", "\f": "ff"}


def c18_suspects(x):
    """Places of x that match a known cause pattern of non-idempotence, each with the edit that
    removes the pattern without touching the tokens: [(offset, length, replacement, cause, detail)].
      comment_after_open          a comment that follows : [ ( | / on the same line (only blanks between)
      comment_after_token         a comment that follows any other token on the same line (it matters
                                  when the layout engine wraps the line in front of the comment)
      nonspace_ws_before_comment  tab / CR / FF between the last line break (or token) and a comment
      block_comment_glued_to_decl a block comment between declarations directly followed by a token"""
    out = []
    toks = lex(x)
    last_sig = None          # last token that is neither white space nor comment
    for i, (k, t, off) in enumerate(toks):
        if k in COMMENTS:
            j = i - 1
            if j >= 0 and toks[j][0] == "Whitespace":
                w, woff = toks[j][1], toks[j][2]
                cut = w.rfind("\n") + 1
                tail = w[cut:]
                odd = sorted({WSNAMES[ch] for ch in tail if ch in WSNAMES})
                if odd:
                    out.append((woff + cut, len(tail), " " * len(tail), "nonspace_ws_before_comment", "+".join(odd)))
                if cut == 0 and j >= 1:
                    if toks[j - 1][0] in OPENERS:
                        out.append((off, 0, "\n", "comment_after_open", OPENERS[toks[j - 1][0]]))
                    elif not toks[j - 1][1].endswith("\n"):
                        out.append((off, 0, "\n", "comment_after_token", "same_line"))
            elif j >= 0 and toks[j][0] in OPENERS:
                out.append((off, 0, "\n", "comment_after_open", OPENERS[toks[j][0]]))
            elif j >= 0 and not toks[j][1].endswith("\n"):
                out.append((off, 0, "\n", "comment_after_token", "same_line"))
            if k == "BlockComment" and last_sig in (None, "Semi") and i + 1 < len(toks) \
                    and toks[i + 1][0] != "Whitespace" and toks[i + 1][0] not in COMMENTS:
                out.append((off + len(t), 0, " ", "block_comment_glued_to_decl", "block"))
        elif k != "Whitespace":
            last_sig = k
    return out


def apply_edits(x, edits, keep=None):
    """x with the edits applied, except those whose (cause, detail) is `keep`."""
    for off, ln, rep, cause, detail in sorted(edits, reverse=True):
        if (cause, detail) != keep:
            x = x[:off] + rep + x[off + ln:]
    return x


def classify_c18(fails):
    """fails: [(name, x)] of non-idempotent valid texts -> {name: [key]}.  Counterfactual: x with every
    suspect place edited away must format idempotently (else the cause is `other`); a (cause, detail)
    gets a key when leaving ONLY it in x is enough to break idempotence again."""
    keys = {}
    queries = []
    for name, x in fails:
        hits = c18_suspects(x)
        if not hits:
            keys[name] = ["C18:nonidempotent:other:" + name]
            continue
        queries.append((name, None, apply_edits(x, hits)))
        for tag in sorted({(h[3], h[4]) for h in hits}):
            queries.append((name, tag, apply_edits(x, hits, keep=tag)))
    recs = probe_texts("fmt", [{"name": "%d" % i, "text": q[2]} for i, q in enumerate(queries)])
    res = {}
    for (name, what, _), r in zip(queries, recs):
        ok = (not r.get("panic")) and r["nsyn_x"] == 0 and r["f1"] == r["f2"]
        res.setdefault(name, {})[what] = ok
    for name, d in res.items():
        if not d.pop(None):
            keys[name] = ["C18:nonidempotent:other:" + name]       # the edits do not cure it
            continue
        culprits = sorted(tag for tag, ok in d.items() if not ok)    # alone sufficient to break idempotence
        if not culprits:
            keys[name] = ["C18:nonidempotent:joint:" + "+".join(sorted({"%s=%s" % t for t in d}))]
            continue
        keys[name] = ["C18:nonidempotent:%s:%s" % t for t in culprits]
    return keys


def repair_tabs(x):
    return "".join(t if k == "Whitespace" else t.replace("\t", " ") for k, t, _ in lex(x))


def repair_block_newlines(x):
    return "".join(re.sub(r"[\r\n\f]", " ", t) if k == "BlockComment" else t for k, t, _ in lex(x))


def classify_panics(fails):
    """fails: [(name, x, stage)] -> {name: cause}.  Counterfactual: which repair removes the panic."""
    keys = {}
    queries = []
    for name, x, stage in fails:
        toks = lex(x)
        tab = any(k != "Whitespace" and "\t" in t for k, t, _ in toks)
        nl = any(k == "BlockComment" and any(ch in t for ch in "\n\r\f") for k, t, _ in toks)
        both = repair_block_newlines(repair_tabs(x))
        queries.append((name, "both", both))
        if tab:
            queries.append((name, "tab_in_token", repair_block_newlines(x)))      # tabs left in
        if nl:
            queries.append((name, "newline_in_block_comment", repair_tabs(x)))    # newlines left in
    items = [{"name": "%d" % i, "text": q[2]} for i, q in enumerate(queries)]
    recs = probe_texts("fmt", items)
    exps = probe_texts("export-texts", [{"name": n, "text": x} for n, x, _ in fails])
    nsyn = {n: (e.get("nsyntax", -1) if "panic" not in e else -1) for (n, _, _), e in zip(fails, exps)}
    res = {}
    for (name, what, _), r in zip(queries, recs):
        res.setdefault(name, {})[what] = bool(r.get("panic"))
    for name, x, stage in fails:
        d = res[name]
        still = d.pop("both")
        culprits = sorted(k for k, p in d.items() if p)
        if culprits and not still:
            keys[name] = "+".join(culprits)
        elif nsyn[name] != 0:
            keys[name] = "syntax_error_input"
        else:
            keys[name] = "other:" + name
    return keys, nsyn


def char_diff_class(a, b):
    """a = x without white space, b = f(x) without white space."""
    from collections import Counter
    ca, cb = Counter(a), Counter(b)
    lost = "".join(sorted((ca - cb).keys()))[:6]
    added = "".join(sorted((cb - ca).keys()))[:6]
    if lost and not added:
        return "lost[%s]" % lost
    if added and not lost:
        return "added[%s]" % added
    if not lost and not added:
        return "reordered"
    return "changed[%s->%s]" % (lost, added)


def classify_c17(why, t, r, panic_cause):
    name = t["name"]
    if why == "panic":
        return "C17:panic:%s:%s" % (r["panic"], panic_cause.get(name, "other:" + name))
    valid = "valid_input" if r.get("nsyn_x") == 0 else "broken_input"
    if why == "chars":
        return "C17:chars:%s:%s" % (char_diff_class(nows(r["x"]), nows(r["f1"])), valid)
    if why == "tokens":
        a, b = [norm_tok(x) for x in r["toks_x"]], [norm_tok(x) for x in r["toks_f1"]]
        k = 0
        while k < min(len(a), len(b)) and a[k] == b[k]:
            k += 1
        ka = a[k][0] if k < len(a) else "END"
        kb = b[k][0] if k < len(b) else "END"
        return "C17:tokens:%s_becomes_%s" % (ka, kb)
    if why == "syntax":
        return "C17:syntax:new_syntax_errors:%d" % r["nsyn_f1"]
    if why == "sema":
        ca, cb = sorted(d[0] for d in r["sema_x"]), sorted(d[0] for d in r["sema_f1"])
        if ca == cb:
            return "C17:sema:same_codes_other_place:%s" % ",".join(sorted(set(ca)))[:40]
        return "C17:sema:%s_becomes_%s" % (",".join(ca)[:30], ",".join(cb)[:30])
    return "C17:%s:%s" % (why, name)


# ----------------------------------------------------------------------------------------------
# judge
# ----------------------------------------------------------------------------------------------

def linebreak_inside_decl(x):
    last = None
    toks = lex(x)
    for i, (k, t, _) in enumerate(toks):
        if k == "Whitespace":
            if "\n" in t and last not in (None, "Semi") and any(kk not in COMMENTS and kk != "Whitespace" for kk, _, _ in toks[i + 1:i + 4]):
                return True
        elif k not in COMMENTS:
            last = k
    return False


def collect(prop, tier):
    rng = random.Random(seed() * 7919 + 17)
    t0 = time.time()
    a_texts, a_stats = family_a(tier)
    log("family A: %d layouts from TLC in %.1fs" % (len(a_texts), time.time() - t0))
    t0 = time.time()
    b_base, b_cands = family_b(tier, rng)
    c_texts = family_c(tier, rng) if prop == "C17" else []
    texts = a_texts + b_base + b_cands + c_texts
    recs = probe_texts("fmt", texts)
    log("probe fmt: %d texts in %.1fs" % (len(texts), time.time() - t0))
    items = []
    seen = set()
    stats = {"A": 0, "B_asis": 0, "B_relayout": 0, "C": 0, "B_relayout_discarded_illegal": 0,
             "A_not_valid": 0, "duplicates_dropped": 0}
    lex_checked = lex_mismatch = 0
    for t, r in zip(texts, recs):
        if "want" in t:
            if not legal_layout(t, r):
                stats["B_relayout_discarded_illegal"] += 1
                continue
        if t["family"] == "A" and not r.get("panic") and r["nsyn_x"] != 0:
            stats["A_not_valid"] += 1       # would be a generator defect; reported, not judged as valid
        if t["text"] in seen:
            stats["duplicates_dropped"] += 1
            continue
        seen.add(t["text"])
        if not r.get("panic") and r["nsyn_x"] == 0:
            lex_checked += 1
            if sig(lex(t["text"])) != r["toks_x"]:
                lex_mismatch += 1
        fam = "A" if t["family"] == "A" else "C" if t["family"] == "C" else "B_relayout" if "want" in t else "B_asis"
        stats[fam] += 1
        r["x"] = t["text"]
        items.append((t, r))
    stats["python_lexer_crosscheck"] = {"valid_texts": lex_checked, "mismatches": lex_mismatch}
    log("legality / cross-checks done at +%.1fs" % (time.time() - t0))
    if stats["A_not_valid"]:
        raise ToolError("the layout model produced %d syntactically invalid texts (generator defect)" % stats["A_not_valid"])
    if lex_mismatch:
        raise ToolError("the Python mirror of the lexer disagrees with the real lexer on %d valid texts" % lex_mismatch)
    return items, stats, a_stats


def selftests_c17(items):
    """Corrupted copies of real records: each contract clause must be able to fire."""
    out = []
    for t, r in items:
        if r.get("panic") or r["nsyn_x"] != 0 or len(r["toks_f1"]) < 3 or not r["sema_x"]:
            continue
        base = record_c17(t["name"], r)
        if C17_expected(base):
            continue
        c = dict(base, name="SELFTEST:tokens", toks_f1=base["toks_f1"][:1] + base["toks_f1"][2:])
        out.append((c, "tokens"))
        out.append((dict(base, name="SELFTEST:chars", f1_nows=base["f1_nows"][:-1]), "chars"))
        out.append((dict(base, name="SELFTEST:syntax", nsyn_f1=1), "syntax"))
        out.append((dict(base, name="SELFTEST:sema", sema_f1=base["sema_f1"][1:]), "sema"))
        out.append((dict(base, name="SELFTEST:panic", panic="format1"), "panic"))
        swapped = list(base["toks_f1"])
        swapped[0], swapped[1] = swapped[1], swapped[0]
        out.append((dict(base, name="SELFTEST:order", toks_f1=swapped), "tokens"))
        break
    return out


def C17_expected(rec):
    """Python shadow of C17Why, used ONLY to pick an intact record for the self-test."""
    return (rec["panic"] or rec["x_nows"] != rec["f1_nows"] or rec["toks_x"] != rec["toks_f1"]
            or rec["sema_x"] != rec["sema_f1"] or rec["nsyn_f1"] != 0)


def judge(prop, tier):
    if prop == "C17":
        return judge_c17(tier)
    if prop == "C18":
        return judge_c18(tier)
    raise ToolError("p5 has no check for %s" % prop)


ASSUMPTIONS = [
    "dprint-core's layout engine is third-party code: it is observed through lelwel's formatter, not modelled",
    "the probe is the harness's dev-profile build, in which harness/Cargo.toml switches dprint-core's debug assertions "
    "off (= what a release build of llw does); with them on (plain `cargo build` of llw) dprint-core's self-checks "
    "panic on a tab or a line break inside a comment / string token and on an unclosed rule or bracket - such runs of "
    "the debug llw are excluded from the command line clause and counted",
    "white space = the lexer's class [ \\t\\r\\n\\f]; line/doc comment tokens are compared without their terminating newline",
    "texts longer than %d characters (or with characters outside the BMP / control characters) are given to TLC "
    "as SHA-256 digests: equality of digests stands for equality of strings" % LONG,
    "TLC and the CommunityModules Json reader are trusted",
]


def register(rep, found):
    """found: [(key, desc, replay)].  One representative per key first (Report prints the first few)."""
    found.sort(key=lambda f: (f[0], len(f[2].get("text", ""))))
    first, rest, seen = [], [], set()
    for f in found:
        cls = ":".join(f[0].split(":")[:4])
        (rest if cls in seen else first).append(f)
        seen.add(cls)
    classes = {}
    for key, desc, replay in first + rest:
        cls = ":".join(key.split(":")[:4])
        c = classes.setdefault(cls, {"count": 0, "example": {"text": replay.get("text"), "f1": replay.get("f1"),
                                                            "f2": replay.get("f2"), "name": replay.get("name")}})
        c["count"] += 1
        rep.violation(key, desc, replay)
    return classes


def judge_c17(tier):
    rep = Report("C17", tier, "model_checking")
    items, stats, a_stats = collect("C17", tier)
    recs = [record_c17(t["name"], r) for t, r in items]
    st = selftests_c17(items)
    if not st:
        raise ToolError("no record suitable for the binding self-test")
    t0 = time.time()
    vs, states, trans, wall = run_judge("C17", tier, recs + [c for c, _ in st])
    log("TLC judged %d records in %.1fs" % (len(recs) + len(st), time.time() - t0))
    got = {v["n"]: v["why"] for v in vs if v["n"].startswith("SELFTEST:")}
    want = {c["name"]: w for c, w in st}
    if got != want:
        raise ToolError("binding self-test failed: corrupted records judged %s, expected %s" % (got, want))
    vs = [v for v in vs if not v["n"].startswith("SELFTEST:")]
    by_name = {t["name"]: (t, r) for t, r in items}
    # panics of the semantic pass (stage "sema") are not the formatter's: unjudgeable, counted
    sema_panics = [v for v in vs if v["why"] == "panic" and by_name[v["n"]][1]["panic"] == "sema"]
    vs = [v for v in vs if v not in sema_panics]
    pfails = [(v["n"], by_name[v["n"]][0]["text"], by_name[v["n"]][1]["panic"]) for v in vs if v["why"] == "panic"]
    panic_cause, _ = classify_panics(pfails) if pfails else ({}, {})
    found = []
    for v in vs:
        t, r = by_name[v["n"]]
        key = classify_c17(v["why"], t, r, panic_cause)
        desc = "C17 %s: formatting %r gives %r (%s)" % (v["why"], t["text"][:120], (r.get("f1") or "<panic in %s>" % r.get("panic"))[:120], key)
        found.append((key, desc, {"property": "C17", "key": key, "name": t["name"], "text": t["text"],
                                  "f1": r.get("f1"), "f2": r.get("f2"), "why": v["why"], "panic": r.get("panic", ""),
                                  "how": "./check C17 --replay <this file>"}))
    classes = register(rep, found)
    changed = sum(1 for t, r in items if not r.get("panic") and r["f1"] != t["text"])
    valid = sum(1 for t, r in items if not r.get("panic") and r["nsyn_x"] == 0)
    samples = []
    for fam in ("A:", "B:", "C:"):
        fam_items = [(t, r) for t, r in items if t["name"].startswith(fam) and not r.get("panic") and len(t["text"]) < 200]
        for t, r in fam_items[:: max(1, len(fam_items) // 2)][:2]:
            samples.append({"name": t["name"], "x": t["text"], "f1": r["f1"]})
    rep.coverage = {
        "states": states + a_stats["states"], "transitions": trans + a_stats["transitions"],
        "traces_validated_against_impl": len(recs), "evaluations": len(recs),
        "samples": samples,
        "distinct_nontrivial": changed,
        "rule": "texts are distinct by content (duplicates dropped); non-trivial = the formatter changed the text (f(x) != x)",
        "syntactically_valid_texts": valid, "texts_per_family": stats,
        "generator": a_stats, "violation_classes": classes,
        "sema_panics_unjudgeable": len(sema_panics),
        "binding_selftest": {"corrupted_records": len(st), "rejected": len(got), "clauses": sorted(set(want.values()))},
        "exhaustive": False,
        "exhaustive_part": "family A only: every layout of the 15 skeletons of FormatModel.tla within the bounds "
                           "%s (max deviating gaps per option set) plus the uniform layouts; families B and C are seeded samples" % a_stats["bounds"],
        "bounds": dict(a_stats["bounds"], skeletons=NSKEL, relayouts_per_file=8 if tier == "quick" else 60),
        "tlc_judge_wall_s": round(wall, 1), "tlc_generator_wall_s": round(a_stats["wall"], 1),
    }
    rep.assumptions = list(ASSUMPTIONS)
    return rep


def cli_clause(sample, tier):
    """Runs llw -f -c / llw -f / llw -f -c on copies of the sample; returns the observations."""
    llw = llw_bin()
    if llw is None:
        return None
    d = os.path.join(cache_dir("p5"), "cli-%d" % os.getpid())
    shutil.rmtree(d, ignore_errors=True)
    os.makedirs(d)

    def one(arg):
        k, (t, r) = arg
        p = os.path.join(d, "g%d.llw" % k)
        os.makedirs(d, exist_ok=True)
        with open(p, "w", encoding="utf-8", newline="") as fh:
            fh.write(t["text"])
        dbg = [False]

        def run(args):
            pr = subprocess.run([llw] + args + [p], cwd=d, stdout=subprocess.PIPE, stderr=subprocess.PIPE, timeout=120)
            if pr.returncode == 101 and b"Debug panic!" in pr.stderr:
                dbg[0] = True       # dprint-core's debug self-check (off in the harness and in release builds)
            return pr.returncode
        c0 = run(["-f", "-c"])
        with open(p, encoding="utf-8", newline="") as fh:
            untouched = fh.read() == t["text"]
        wexit = run(["-f"])
        with open(p, encoding="utf-8", newline="") as fh:
            w = fh.read()
        c1 = run(["-f", "-c"])
        return {"c0": c0, "wexit": wexit, "w": tlc_str(w), "c1": c1, "check_left_file_untouched": untouched,
                "dprint_debug_panic": dbg[0]}
    obs = parallel(one, list(enumerate(sample)), jobs=6)
    shutil.rmtree(d, ignore_errors=True)
    return obs


def judge_c18(tier):
    rep = Report("C18", tier, "model_checking")
    items, stats, a_stats = collect("C18", tier)
    # C18 quantifies over syntactically valid files whose formatting exists; a panic of the FIRST
    # formatting is C17's business (no f(x) to re-format), a panic of the second one is C18's
    usable = [(t, r) for t, r in items if r.get("panic") or r["nsyn_x"] == 0]
    first_panic = sum(1 for t, r in usable if r.get("panic") in ("lex", "parse", "format1"))
    recs = [record_c18(t["name"], r) for t, r in usable]
    by_name = {t["name"]: (t, r) for t, r in usable}
    # CLI sample: files as is (some already formatted), re-laid-out ones, enumerated layouts
    rng = random.Random(seed())
    n_cli = 20 if tier == "quick" else 200
    ok_items = [(t, r) for t, r in usable if not r.get("panic")]
    nonidem = [x for x in ok_items if x[1]["f1"] != x[1]["f2"]]
    fixed = [x for x in ok_items if x[1]["f1"] == x[0]["text"]]
    rest = [x for x in ok_items if x[1]["f1"] == x[1]["f2"] and x[1]["f1"] != x[0]["text"]]
    sample = []
    for pool, share in ((nonidem, 0.2), (fixed, 0.3), (rest, 0.5)):
        pool = list(pool)
        rng.shuffle(pool)
        sample += pool[:max(1, int(n_cli * share))] if pool else []
    obs = cli_clause(sample, tier)
    log("CLI clause observed on %d files" % len(sample))
    cli_recs = []
    cli_debug_panics = 0
    if obs is not None:
        for (t, r), o in zip(sample, obs):
            if o["dprint_debug_panic"]:
                cli_debug_panics += 1       # the debug build of llw trips dprint-core's debug self-check: not judged
                continue
            c = record_c18("CLI:" + t["name"], r)
            c["x"] = tlc_str(t["text"])
            c["cli"] = {"c0": o["c0"], "wexit": o["wexit"], "w": o["w"], "c1": o["c1"]}
            cli_recs.append(c)
    # binding self-test
    st = []
    for t, r in ok_items:
        if r["f1"] == r["f2"] and len(r["f1"]) < LONG:
            st.append((dict(record_c18("SELFTEST:f2", r), f2=r["f2"] + " "), "nonidempotent"))
            st.append((dict(record_c18("SELFTEST:panic2", r), panic="format2"), "panic2"))
            break
    for c in cli_recs:
        intact = ((c["cli"]["c0"] == 0) == (c["x"] == c["f1"]) and c["cli"]["wexit"] == 0 and c["cli"]["w"] == c["f1"]
                  and c["cli"]["c1"] == 0 and c["f1"] == c["f2"] and c["cli"]["c0"] in (0, 1))
        if intact:
            st.append((dict(c, name="SELFTEST:cli0", cli=dict(c["cli"], c0=1 - c["cli"]["c0"])), "cli_check_before"))
            st.append((dict(c, name="SELFTEST:cliw", cli=dict(c["cli"], w=c["cli"]["w"] + "x")), "cli_write"))
            st.append((dict(c, name="SELFTEST:cli1", cli=dict(c["cli"], c1=1)), "cli_check_after"))
            break
    t0 = time.time()
    vs, states, trans, wall = run_judge("C18", tier, recs + cli_recs + [c for c, _ in st])
    log("TLC judged %d records in %.1fs" % (len(recs) + len(cli_recs) + len(st), time.time() - t0))
    got = {}
    for v in vs:
        if v["n"].startswith("SELFTEST:"):
            got.setdefault(v["n"], []).append(v["why"])
    want = {c["name"]: w for c, w in st}
    bad = {n: (got.get(n), w) for n, w in want.items() if w not in got.get(n, [])}
    if bad or not st:
        raise ToolError("binding self-test failed: %s" % bad)
    vs = [v for v in vs if not v["n"].startswith("SELFTEST:")]
    cli_vs = [v for v in vs if v["n"].startswith("CLI:") and v["why"].startswith("cli_")]
    vs = [v for v in vs if not v["n"].startswith("CLI:")]
    fails = [(v["n"], by_name[v["n"]][0]["text"]) for v in vs if v["why"] == "nonidempotent"]
    keys = classify_c18(fails) if fails else {}
    found = []
    for v in vs:
        t, r = by_name[v["n"]]
        if v["why"] == "nonidempotent":
            ks = keys[t["name"]]
            desc = "C18: f(f(x)) != f(x) for x=%r: f(x)=%r f(f(x))=%r (%s)" % (t["text"][:100], r["f1"][:100], r["f2"][:100], ", ".join(ks))
        else:
            ks = ["C18:panic_on_formatted_output:%s:%s" % (r["panic"], t["name"])]
            desc = "C18: formatting x=%r succeeded but stage %s on its output panicked" % (t["text"][:100], r["panic"])
        for key in ks:      # one entry per cause that alone suffices
            found.append((key, desc, {"property": "C18", "key": key, "name": t["name"], "text": t["text"], "f1": r.get("f1"),
                                      "f2": r.get("f2"), "why": v["why"], "how": "./check C18 --replay <this file>"}))
    cli_by = {"CLI:" + t["name"]: (t, r, o) for (t, r), o in zip(sample, obs or [])}
    for v in cli_vs:
        t, r, o = cli_by[v["n"]]
        key = "C18:%s:%s" % (v["why"], "x_is_formatted" if r["f1"] == t["text"] else "x_not_formatted")
        desc = "C18 CLI: %s on x=%r: exit(-f -c)=%d, exit(-f)=%d, exit(-f -c after)=%d, f(x)==x: %s, f(f(x))==f(x): %s" % (
            v["why"], t["text"][:100], o["c0"], o["wexit"], o["c1"], r["f1"] == t["text"], r["f1"] == r["f2"])
        found.append((key, desc, {"property": "C18", "key": key, "name": t["name"], "text": t["text"], "f1": r["f1"],
                                  "f2": r["f2"], "why": v["why"], "cli": o, "how": "./check C18 --replay <this file>"}))
    classes = register(rep, found)
    log("classification done")
    nontrivial = 0
    for t, r in ok_items:
        if any(k in COMMENTS for k, _ in r["toks_x"]) or linebreak_inside_decl(t["text"]):
            nontrivial += 1
    samples = []
    for fam in ("A:", "B:"):
        fam_items = [(t, r) for t, r in ok_items if t["name"].startswith(fam) and len(t["text"]) < 200]
        for t, r in fam_items[:: max(1, len(fam_items) // 2)][:2]:
            samples.append({"name": t["name"], "x": t["text"], "f1": r["f1"], "f2_equals_f1": r["f1"] == r["f2"]})
    rep.coverage = {
        "states": states + a_stats["states"], "transitions": trans + a_stats["transitions"],
        "traces_validated_against_impl": len(recs), "evaluations": len(recs),
        "samples": samples, "distinct_nontrivial": nontrivial,
        "rule": "texts are distinct by content; counted: syntactically valid texts (formatting did not panic) that contain "
                "at least one comment or a line break inside a declaration (after a token other than ';' and before another token)",
        "texts_per_family": stats, "generator": a_stats, "violation_classes": classes,
        "excluded_first_formatting_panicked": first_panic,
        "cli_clause": ({"files": len(cli_recs), "x_not_idempotent": sum(1 for t, r in sample if r["f1"] != r["f2"]),
                        "x_already_formatted": sum(1 for t, r in sample if r["f1"] == t["text"]),
                        "check_mode_left_file_untouched": all(o["check_left_file_untouched"] for o in obs),
                        "excluded_dprint_debug_assertion_panic_of_debug_llw": cli_debug_panics}
                       if obs is not None else "skipped (VERIF_PROBE set without VERIF_LLW)"),
        "binding_selftest": {"corrupted_records": len(st), "rejected": len(got), "clauses": sorted(set(want.values()))},
        "exhaustive": False,
        "exhaustive_part": "family A only: every layout of the 15 skeletons of FormatModel.tla within the bounds "
                           "%s (max deviating gaps per option set) plus the uniform layouts; family B and the CLI sample are seeded samples" % a_stats["bounds"],
        "bounds": dict(a_stats["bounds"], skeletons=NSKEL, relayouts_per_file=8 if tier == "quick" else 60, cli_files=n_cli),
        "tlc_judge_wall_s": round(wall, 1), "tlc_generator_wall_s": round(a_stats["wall"], 1),
    }
    rep.assumptions = list(ASSUMPTIONS)
    return rep


# ----------------------------------------------------------------------------------------------
# replay
# ----------------------------------------------------------------------------------------------

def replay(prop, path):
    with open(path) as fh:
        rp = json.load(fh)
    t = {"name": rp.get("name", "replay"), "text": rp["text"], "family": "R"}
    r = probe_texts("fmt", [t])[0]
    r["x"] = t["text"]
    print("x  = %r" % t["text"])
    print("f1 = %r" % r.get("f1"))
    print("f2 = %r" % r.get("f2"))
    if r.get("panic"):
        print("panic in stage %s" % r["panic"])
    recs = [record_c17(t["name"], r) if prop == "C17" else record_c18(t["name"], r)]
    if prop == "C18" and "cli" in rp and not r.get("panic"):
        obs = cli_clause([(t, r)], "quick")
        if obs is not None and not obs[0]["dprint_debug_panic"]:
            c = record_c18("CLI:" + t["name"], r)
            c["x"] = tlc_str(t["text"])
            c["cli"] = {k: obs[0][k] for k in ("c0", "wexit", "w", "c1")}
            recs.append(c)
    vs, _, _, _ = run_judge(prop, "quick", recs, tag="replay")
    for v in vs:
        print("TLC: contract clause '%s' fails on record %s" % (v["why"], v["n"]))
    if prop == "C17" and r.get("panic") == "sema":
        return 0
    return 1 if vs else 0
